"""C19 — plateau finding and in-phase filtering return exactly the defined selections."""

from __future__ import annotations

import ast

from sa import term as T
from sa.effects import Effects
from sa.interp import Interp, Opaque, SVar
from sa.scipp_model import Model
from sa.kernel import P, make_param, run_kernel
from sa.load import AnalysisError, Repo, loc
from sa.report import Run
from sa.term import Rat
from sa.units import NO_UNIT, Unit

from .common import private_helper, eq_term, events, returns, show


class PlateauModel(Model):
    """scipp model plus symbolic tokens for group / bins reductions and a record of coordinate stores."""

    def __init__(self):
        super().__init__()
        self.binned_mode = True
        self.reset()

    def reset(self):
        self.stores, self.groups, self.index = [], [], []
        self._group_results, self._filtered = [], []

    def snapshot(self):
        return (self.stores, self.groups, self.index, self._group_results, self._filtered)

    def restore(self, snap):
        self.stores, self.groups, self.index, self._group_results, self._filtered = snap

    def bound_store(self, interp, obj, key, val, node):
        self.stores.append((obj.recv, obj.name, key, val))

    def is_group_result(self, v) -> bool:
        return any(v is g or v.view_of is g for g in self._group_results)

    def derives_from_filtered(self, v) -> bool:
        seen = 0
        while v is not None and seen < 20:
            if any(v is f for f in self._filtered):
                return True
            v = v.view_of
            seen += 1
        return False

    def call_method(self, interp, recv, name, args, kwargs, node):
        if isinstance(recv, SVar) and name == 'group':
            r = super().call_method(interp, recv, name, args, kwargs, node)
            r.taint = True
            self.groups.append((recv, args, r))
            self._group_results.append(r)
            return r
        if isinstance(recv, SVar) and name in ('bins.size', 'bins.mean', 'bins.min', 'bins.max'):
            red = name.split('.')[1]
            if red == 'size':
                r = self.new(interp, Rat.sym('bin_sizes', positive=True), NO_UNIT, 'int64')
                r.kind = 'dataarray'
                return r
            t = Rat.fn('bins_' + red, recv.term) if isinstance(recv.term, Rat) else None
            r = self.new(interp, t, recv.unit, recv.dtype, why=recv.why)
            r.kind = recv.kind
            return r
        return super().call_method(interp, recv, name, args, kwargs, node)

    def var_index(self, interp, v, key, node):
        r = super().var_index(interp, v, key, node)
        self.index.append((v, key, r))
        if isinstance(key, SVar) and self.is_group_result(v):
            self._filtered.append(r)
        return r

    def call_ext(self, interp, path, args, kwargs, node):
        if path == 'numpy.nextafter' and len(args) == 2 and isinstance(args[0], SVar):
            x, to = args
            up = isinstance(to, float) and to == float('inf')
            t = Rat.fn('nextafter_up' if up else 'nextafter_other', x.term) if isinstance(x.term, Rat) else None
            r = self.new(interp, t, x.unit, x.dtype, x.taint, x.why)
            r.kind = 'raw'
            r.members.update(x.members)
            return r
        return super().call_ext(interp, path, args, kwargs, node)


class PlateauInterp(Interp):
    def iterate(self, v, node):
        if isinstance(v, SVar | Opaque):
            return []  # no plateau is inspected by the total-drift guard (an additional refusal, not decided)
        return super().iterate(v, node)


def idx(t: Rat, key: str) -> Rat:
    return Rat.fn('index', t, Rat.sym('key:' + key))


def run(tier: str) -> Run:
    run = Run('C19', tier, 'other',
              'Thin, stated as such: the clauses of the property that are visible in the shape of '
              'chopper/filtering.py.  Decided: the slope is (y[i+1]-y[i])/(x[i+1]-x[i]) computed without '
              'an integer unit conversion for float, integer and datetime coordinates; the exceed mask '
              'is the strict comparison |slope| > atol (atol converted to the slope unit); group ids are '
              'the cumulative count of the mask with one leading 0; the size filter is >= min_n_points; '
              'collapse uses bins.min and the next representable value above bins.max (nextafter '
              'towards +inf for floats, +1 unit for integers and datetimes); the in-phase predicate '
              'is |round(q)-q| < rtol or |round(1/q)-1/q| < rtol with q = x/ref and the filter indexes '
              'by exactly that mask; no argument is written.  Maximality/completeness of the returned '
              'runs are properties of runtime sequences and are not decided.')
    repo = Repo()
    run.analysed = {'modules': ['chopper.filtering'], 'digest': repo.digest.hexdigest()}
    run.trusted = ['sa/scipp_model.py', 'scipp group/bins semantics (not analysed)']
    fi = private_helper(repo, 'chopper.filtering', '_derive', ['da'])  # else: the slope is decided inside find_plateaus below (R1 public instances, R2)

    r1 = run.rule('R1', 'dtype discipline for float / int / datetime coordinates: find_plateaus makes no lossy conversion on the way (integer unit '
                        'conversion, narrowing cast); the slope helper is decided on its own where it exists', 3)
    for xdt in (('float64', 'int64', 'datetime64') if fi is not None else ()):
        def args(it, xdt=xdt):
            x = make_param(it, 'x', P(dim='T', positive=False), dtype=xdt)
            y = make_param(it, 'y', P(dim='FREQ', positive=False))
            da = SVar(y.term, y.unit, y.dtype, origin='da')
            da.kind = 'dataarray'
            da.members['coords'] = {'*': x}
            it.track(da)
            return {'da': da}
        T.reset()
        outs = run_kernel(repo, fi, {}, extra_args=None, bound=None, keep_table=True) if False else None
        from sa.interp import Interp
        from sa.scipp_model import Model
        it = Interp(repo, Model())
        outs = it.run_all(lambda i: i.call_function(fi, [], args(i)))
        ok = len(outs) == 1 and outs[0].kind == 'return' and isinstance(outs[0].value, SVar) and outs[0].value.term is not None
        detail = {'outcomes': [(o.kind, o.exc_type, o.where) for o in outs]}
        if ok:
            v = outs[0].value
            x, y = Rat.sym('x'), Rat.sym('y')
            want = (idx(y, 'slice(1, None, None)') - idx(y, 'slice(None, -1, None)')) / \
                   (idx(x, 'slice(1, None, None)') - idx(x, 'slice(None, -1, None)'))
            bad = [dict(e.detail, where=e.where) for e in events(outs[0], 'int-unit-conversion', 'narrowing-cast')]
            ok = eq_term(v.term, want) and not bad and v.dtype == 'float64'
            detail = {'computed': T.show(v.term), 'expected': T.show(want), 'dtype': v.dtype, 'lossy_conversions': bad}
        r1.check(ok, f'_derive[x={xdt}]', loc(fi), detail, key='derive')

    r2 = run.rule('R2', 'find_plateaus: every input point takes part in the grouping (nothing is selected away before the runs are formed); the grouping mechanism is recorded, the bins themselves are decided by R6', 3)
    pfi = repo.func('chopper.filtering', 'find_plateaus')
    T.reset()
    pm = PlateauModel()
    pit = PlateauInterp(repo, pm)

    def plateau_args(i, xdt='float64'):
        x = make_param(i, 'x', P(dim='T', positive=False), dtype=xdt)
        y = make_param(i, 'y', P(dim='FREQ', positive=False))
        da = SVar(y.term, y.unit, y.dtype, origin='da')
        da.kind = 'dataarray'
        da.members['coords'] = {'*': x}
        da.members['dims'] = ['t']
        i.track(da)
        atol = make_param(i, 'atol', P(dim='FREQ/T'))
        mn = make_param(i, 'min_n', P(dim='ONE', unit=NO_UNIT), dtype='int64')
        pm.reset()
        try:
            return i.call_function(pfi, [da], {'atol': atol, 'min_n_points': mn})
        finally:
            snaps.append(pm.snapshot())
    snaps: list = []
    outs = pit.run_all(plateau_args)
    rets = [o for o in outs if o.kind == 'return']
    xs, ys = Rat.sym('x'), Rat.sym('y')
    slope = (idx(ys, 'slice(1, None, None)') - idx(ys, 'slice(None, -1, None)')) / (idx(xs, 'slice(1, None, None)') - idx(xs, 'slice(None, -1, None)'))
    want_gid = Rat.fn('concat', Rat.const(0), Rat.fn('cumsum', T.fn_cmp('>', T.fn_abs(slope), Rat.sym('atol', positive=True))))
    want_size = T.fn_cmp('>=', Rat.sym('bin_sizes', positive=True), Rat.sym('min_n', positive=True))
    if not rets:
        r2.fail('find_plateaus', loc(pfi), {'problem': 'no returning path on sorted 1-d input', 'outcomes': [(o.kind, o.exc_type, o.where) for o in outs]}, key='paths')
    # an implementation may branch among returning paths (on the shape of the tolerance, say): the rule holds on each of them
    for n_path, o_ret in enumerate(rets):
        pm.restore(snaps[outs.index(o_ret)])
        tag = '' if len(rets) == 1 else f' [returning path {n_path + 1} of {len(rets)}]'
        grouped = pm.groups
        gid = None
        if len(grouped) == 1:
            recv, gargs, _res = grouped[0]
            label = gargs[0] if gargs else None
            for obj, where_, key, val in pm.stores:
                if where_ == 'coords' and key is label and (obj is recv or obj.view_of is recv or recv.view_of is obj):
                    gid = val
        got = gid.term if isinstance(gid, SVar) else None
        # every input point belongs to a run: nothing may be selected away before the runs are formed
        if len(grouped) != 1:
            r2.ok('all points are grouped' + tag, {'decided_by': 'R6 (no single group-by-label call to inspect)'}, nontrivial=False)
        if len(grouped) == 1:
            pre = [k for v, k, r in pm.index if isinstance(k, SVar) and (r is grouped[0][0] or grouped[0][0].view_of is r)]
            r2.check(not pre, 'all points are grouped' + tag, loc(pfi), {'selection_before_grouping': [T.show(k.term) if k.term is not None else repr(k) for k in pre][:2]},
                     key='points-dropped')
        if n_path:
            continue
        # the mechanism (which expression the points are grouped by, how the size filter is written) is not a verdict: the bins are decided
        # semantically by R6 on a finite domain.  It is recorded for the reader of the evidence.
        mech = {'grouping_coordinate': T.show(got)[:300] if got is not None else None, 'documented_mechanism': T.show(want_gid)[:300],
                'same_as_documented': bool(got is not None and eq_term(got, want_gid)), 'decided_by': 'R6'}
        r2.ok('mechanism: group id = concat(0, cumsum(|slope| > atol)), size filter (informational)', mech, nontrivial=False)
        r2.ok('exceed mask (decided by R6: steps exactly at and just above the tolerance)', nontrivial=False)

    # R1 on the public function: the same grouping coordinate for integer and datetime time stamps, no lossy conversion on the way
    for xdt in ('float64', 'int64', 'datetime64'):
        T.reset()
        pm1 = PlateauModel()
        pit1 = PlateauInterp(repo, pm1)
        snaps1: list = []

        def args1(i, xdt=xdt, pm1=pm1, snaps1=snaps1):
            x = make_param(i, 'x', P(dim='T', positive=False), dtype=xdt)
            y = make_param(i, 'y', P(dim='FREQ', positive=False))
            da = SVar(y.term, y.unit, y.dtype, origin='da')
            da.kind = 'dataarray'
            da.members['coords'] = {'*': x}
            da.members['dims'] = ['t']
            i.track(da)
            atol = make_param(i, 'atol', P(dim='FREQ/T'))
            mn = make_param(i, 'min_n', P(dim='ONE', unit=NO_UNIT), dtype='int64')
            pm1.reset()
            try:
                return i.call_function(pfi, [da], {'atol': atol, 'min_n_points': mn})
            finally:
                snaps1.append(pm1.snapshot())
        outs1 = pit1.run_all(args1)
        rets1 = [o for o in outs1 if o.kind == 'return']
        inst = f'find_plateaus[x={xdt}]'
        if not rets1:
            r1.fail(inst, loc(pfi), {'outcomes': [(o.kind, o.exc_type, o.where) for o in outs1]}, key='derive-public')
            continue
        lossy1 = [dict(e.detail, where=e.where) for o1 in rets1 for e in events(o1, 'int-unit-conversion', 'narrowing-cast')]
        r1.check(not lossy1, inst, loc(pfi), {'lossy_conversions': lossy1[:2], 'note': 'which bins come out is decided by R6'}, key='derive-public')

    r3 = run.rule('R3', 'collapse: low = bins.min, high = next representable above bins.max (float: nextafter; integer / datetime: one unit)', 4)
    cfi = repo.func('chopper.filtering', 'collapse_plateaus')
    nfi = private_helper(repo, 'chopper.filtering', '_next_highest', ['x'])  # else: decided through collapse_plateaus for all four dtypes
    for edt in ('float64', 'float32', 'int64', 'datetime64'):
        T.reset()
        pm = PlateauModel()
        pit = PlateauInterp(repo, pm)

        def collapse_args(i, edt=edt):
            ev = make_param(i, 'ev', P(dim='T', positive=False, taint=True), dtype=edt)
            y = make_param(i, 'y', P(dim='FREQ', positive=False, taint=True))
            pl = SVar(y.term, y.unit, y.dtype, origin='plateaus', taint=True)
            pl.kind = 'dataarray'
            pl.members['bins.coords'] = {'time': ev}
            pl.members['dims'] = ['plateau']
            i.track(pl)
            pm.reset()
            try:
                return i.call_function(cfi, [pl], {'coord': 'time'})
            finally:
                snaps.append(pm.snapshot())
        snaps = []
        outs = pit.run_all(collapse_args)
        rets = [o for o in outs if o.kind == 'return']
        for o, sn in zip(outs, snaps, strict=True):
            if o.kind == 'return':
                pm.restore(sn)
        inst = f'collapse_plateaus[{edt}]'
        if len(rets) != 1 or not isinstance(rets[0].value, SVar):
            r3.fail(inst, loc(cfi), {'outcomes': [(o.kind, o.exc_type, o.where) for o in outs]}, key=inst)
            continue
        ret = rets[0].value
        ev = Rat.sym('ev')
        lo = Rat.fn('bins_min', ev)
        mx = Rat.fn('bins_max', ev)
        if edt.startswith('float'):
            u = Rat.sym('U:ev', positive=True)
            hi = Rat.fn('nextafter_up', mx / u) * u
        else:
            hi = mx + Rat.sym('U:ev', positive=True)
        want = Rat.fn('concat', lo, hi)
        stored = [val for obj, where_, key, val in pm.stores if where_ == 'coords' and key == 'time' and obj is ret]
        got = stored[-1].term if stored and isinstance(stored[-1], SVar) else None
        mean_ok = isinstance(ret.term, Rat) and eq_term(ret.term, Rat.fn('bins_mean', Rat.sym('y')))
        dt_ok = bool(stored) and stored[-1].dtype == edt
        r3.check(got is not None and eq_term(got, want) and mean_ok and dt_ok, inst, loc(cfi),
                 {'edge_coordinate': T.show(got) if got is not None else None, 'expected': T.show(want), 'data_is_bins_mean': mean_ok,
                  'edge_dtype': stored[-1].dtype if stored else None}, key=inst)
    for xdt in (('int64', 'datetime64') if nfi is not None else ()):
        outs = run_kernel(repo, nfi, {'x': P(dim='T', positive=False)}, dtypes={'x': xdt})
        ok = len(outs) == 1 and outs[0].kind == 'return' and isinstance(outs[0].value, SVar) and outs[0].value.term is not None
        detail = {}
        if ok:
            v = outs[0].value
            want = Rat.sym('x') + Rat.sym('U:x', positive=True)
            ok = eq_term(v.term, want) and v.dtype == xdt
            detail = {'computed': T.show(v.term), 'expected': 'x + one unit', 'dtype': v.dtype}
        else:
            detail = {'outcomes': [(o.kind, o.exc_type, o.where) for o in outs]}
        r3.check(ok, f'_next_highest[{xdt}]', loc(nfi), detail, key=f'next-{xdt}')

    r4 = run.rule('R4', 'in-phase predicate and filter (decided on the public filter_in_phase; private helpers are checked where they exist)', 1)
    helpers = repo.module('chopper.filtering').functions
    afi = helpers.get('_is_approximate_multiple')
    specs = {'x': P(dim='FREQ', positive=False), 'ref': P(dim='FREQ', positive=False), 'rtol': P(dim='ONE', unit=Unit())}
    outs = run_kernel(repo, afi, specs) if afi is not None and [a.arg for a in afi.node.args.args + afi.node.args.kwonlyargs] == list(specs) else None

    def mask(xs, refs, rtol):
        q = xs / refs
        a = T.fn_cmp('<', T.fn_abs(Rat.fn('round', q) - q), rtol)
        b = T.fn_cmp('<', T.fn_abs(Rat.fn('round', 1 / q) - 1 / q), rtol)
        return T.fn_bool('or', a, b)
    if outs is not None:
        ok = len(outs) == 1 and outs[0].kind == 'return' and outs[0].value.term is not None
        detail = {}
        if ok:
            want = mask(Rat.sym('x'), Rat.sym('ref'), Rat.sym('rtol', positive=True))
            ok = eq_term(outs[0].value.term, want)
            detail = {'computed': show(outs[0].value), 'expected': T.show(want)}
        r4.check(ok, '_is_approximate_multiple', loc(afi), detail, key='predicate')
    ffi = repo.func('chopper.filtering', 'filter_in_phase')
    specs = {'frequency': P(dim='FREQ', positive=False), 'reference': P(dim='FREQ', positive=False), 'rtol': P(dim='ONE', unit=Unit())}
    outs = run_kernel(repo, ffi, specs)
    ok = len(outs) == 1 and outs[0].kind == 'return' and isinstance(outs[0].value, SVar)
    detail = {}
    if ok:
        ix = [e for e in outs[0].events if e.kind == 'index-key']
        keys = outs[0].value.members.get('index_key')
        want = mask(Rat.sym('frequency'), Rat.sym('reference'), Rat.sym('rtol', positive=True))
        ok = outs[0].value.view_of is not None and outs[0].value.view_of.origin == 'frequency' and keys is not None and eq_term(keys, want)
        detail = {'index_key': T.show(keys) if keys is not None else None, 'expected': T.show(want)}
    r4.check(ok, 'filter_in_phase', loc(ffi), detail, key='filter')
    # integer-valued frequencies (e.g. counts per second) against a fractional reference, and single precision: the predicate is the same
    # and neither operand is narrowed on the way (a reference of 12.5 Hz must not become 12 Hz)
    for fdt, rdt in (('int64', 'float64'), ('int32', 'float64'), ('float32', 'float64'), ('float64', 'float32'), ('int64', 'int64')):
        outs = run_kernel(repo, ffi, specs, dtypes={'frequency': fdt, 'reference': rdt})
        ok = len(outs) == 1 and outs[0].kind == 'return' and isinstance(outs[0].value, SVar)
        detail = {'outcomes': [(o.kind, o.exc_type, o.where) for o in outs]}
        if ok:
            keys = outs[0].value.members.get('index_key')
            want = mask(Rat.sym('frequency'), Rat.sym('reference'), Rat.sym('rtol', positive=True))
            lossy = [dict(e.detail, where=e.where) for e in events(outs[0], 'narrowing-cast', 'int-unit-conversion')]
            ok = keys is not None and eq_term(keys, want) and not lossy
            detail = {'index_key': T.show(keys) if keys is not None else None, 'expected': T.show(want), 'lossy_conversions': lossy[:2]}
        r4.check(ok, f'filter_in_phase[frequency: {fdt}, reference: {rdt}]', loc(ffi), detail, key=f'filter-dtype:{fdt}:{rdt}')
    ifi = helpers.get('_is_in_phase')
    if ifi is not None and [a.arg for a in ifi.node.args.args + ifi.node.args.kwonlyargs] == list(specs):
        outs = run_kernel(repo, ifi, specs)
        ok = len(outs) == 1 and outs[0].kind == 'return' and outs[0].value.term is not None and \
            eq_term(outs[0].value.term, mask(Rat.sym('frequency'), Rat.sym('reference'), Rat.sym('rtol', positive=True)))
        r4.check(ok, '_is_in_phase', loc(ifi), {'computed': show(outs[0].value) if outs else None}, key='in-phase')

    r5 = run.rule('R5', 'no argument is written by find_plateaus / collapse_plateaus / filter_in_phase', 3)
    eff = Effects(repo)
    eff.solve()
    for name in ('find_plateaus', 'collapse_plateaus', 'filter_in_phase'):
        f = repo.func('chopper.filtering', name)
        s_ = eff.summaries[f.fq]
        # (what is reachable from the arguments; a memo table of the module is no argument - whether it changes results is R7's matter)
        args_written = {t: m for t, m in s_.mutates.items() if t.startswith('p:')}
        if args_written:
            tok, m = sorted(args_written.items())[0]
            r5.fail(name, m.where, {'writes_to': sorted(args_written), 'statement': m.stmt}, key=name)
        else:
            r5.ok(name, {'module_state_written': sorted(t for t in s_.mutates if not t.startswith('p:'))})
    from checks import c19_runs
    c19_runs.rule(run, repo, tier, loc(pfi))
    r7 = run.rule('R7', 'the plateaus found do not depend on earlier calls: two find_plateaus calls in one world (module-level tables and caches '
                        'persist) with the tolerance given as an integer and as the equal floating-point number, coordinate and tolerance in '
                        'different units: the bins of the second call are those of a fresh interpreter', 1)
    bad7, n7, fresh7 = c19_runs.tolerance_histories(repo, pfi)
    r7.check(not bad7, 'integer / floating-point tolerance of equal value', loc(pfi), {'histories': n7, 'histories_with_other_bins': len(bad7), 'first': bad7[:1],
                                                                                      'fresh': {k: str(v) for k, v in fresh7.items()}}, key='history:tolerance')
    return run
