"""C03 — straight-beamline geometry equals its Euclidean definition; 2theta is stable."""

from __future__ import annotations

from sa import term as T
from sa.interp import FuncRef
from sa.kernel import run_kernel, specs_for
from sa.load import AnalysisError, Repo, loc
from sa.report import Run
from sa.term import Rat, Vec
from spec import formulas
from spec.formulas import V

from .common import beamline_graph, eq_term, events, returns, show, term_of

GEOM = {
    'straight_incident_beam': lambda: V('sample_position') - V('source_position'),
    'straight_scattered_beam': lambda: V('position') - V('sample_position'),
    'L1': lambda: T.norm(V('incident_beam')),
    'L2': lambda: T.norm(V('scattered_beam')),
    'total_beam_length': lambda: formulas.S('L1') + formulas.S('L2'),
    'total_straight_beam_length_no_scatter': lambda: T.norm(V('position') - V('source_position')),
}
UNSTABLE = {'acos', 'asin', 'cos'}


def paths(repo, name):
    """Every path of the kernel (a kernel may branch on its inputs; each branch must satisfy the rules)."""
    fi = repo.func('conversion.beamline', name)
    outs = run_kernel(repo, fi, specs_for(fi))
    if not outs:
        raise AnalysisError(f'{fi.fq}: no path')
    return fi, outs


def cond_text(o):
    return [f'{getattr(c, "why", None) or (T.show(c.term) if getattr(c, "term", None) is not None else repr(c))} -> {taken}' for c, taken, _w in o.conditions][:4]


def angle_shape(t: Rat):
    """Recognise c*atan2(y, x); returns (c, y, x) or None."""
    if t.den is not T.ONE_P or len(t.num) != 1:
        return None
    (m, c), = t.num.items()
    if len(m) != 1 or m[0][1] != 1:
        return None
    a = T.A(m[0][0])
    if a.kind == 'fn' and a.name == 'atan2':
        return c, a.args[0], a.args[1]
    return None


def nonneg(t: Rat) -> bool:
    s = t.sign()
    return s is not None and s >= 0


def run(tier: str) -> Run:
    run = Run('C03', tier, 'other',
              'The geometry kernels are interpreted to exact vector/scalar normal forms (linear forms '
              'over the position vectors, norm/dot/cross atoms).  Decided: the six Euclidean '
              'definitions; that two_theta is one of the two epsilon-accurate formulas '
              '(2*atan2(|e1-e2|,|e1+e2|) on normalised beams, or atan2(|b1xb2|, b1.b2)) and uses no '
              'acos/asin/cos of a normalised product; that its shape confines it to [0, pi]; that the '
              'normal form is invariant under swapping the beams and under positive rescaling of '
              'either; that no argument is written; that the beamline graph tables are one-step sound. '
              'The 1e-15 figure is Kahan\'s theorem about the recognised formula and is cited, not '
              're-proved; rotation/translation invariance follow from the form (norms of differences).')
    repo = Repo()
    run.analysed = {'modules': ['conversion.beamline', 'conversion.graph.beamline'], 'digest': repo.digest.hexdigest()}
    run.trusted = ['sa/scipp_model.py', 'sa/term.py', 'spec/formulas.py']
    r1 = run.rule('R1', 'Euclidean definitions of beams and lengths (term identity)', 6)
    for name, want in GEOM.items():
        fi, outs = paths(repo, name)
        for out in outs:
            if out.kind != 'return':
                r1.fail(name, loc(fi), {'problem': f'raises {out.exc_type} at {out.where}', 'path': cond_text(out)}, key=name)
                continue
            got = term_of(out.value, fi)
            w = want()
            r1.check(eq_term(got, w), name, loc(fi), {'computed': T.show(got), 'definition': T.show(w), 'path': cond_text(out)}, key=name)

    r2 = run.rule('R2', 'two_theta is an epsilon-accurate angle formula; no acos/asin/cos of a normalised product', 1)
    r3 = run.rule('R3', 'shape confines the angle to [0, pi]', 1)
    r4 = run.rule('R4', 'invariant under swapping the beams and under positive rescaling of either beam', 3)
    r5 = run.rule('R5', 'no geometry kernel writes to an argument', 7)
    fi, outs_tt = paths(repo, 'two_theta')
    b1, b2 = V('incident_beam'), V('scattered_beam')
    kahan, alt = formulas.kahan_angle(b1, b2), formulas.cross_dot_angle(b1, b2)
    for out in outs_tt:
        if out.kind != 'return':
            r2.fail('two_theta', loc(fi), {'problem': f'raises {out.exc_type} at {out.where}', 'path': cond_text(out)}, key='two_theta')
            continue
        got = term_of(out.value, fi)
        used = sorted({e.detail['fn'] for e in events(out, 'math-call')})
        bad_fns = sorted(set(used) & UNSTABLE)
        r2.check((eq_term(got, kahan) or eq_term(got, alt)) and not bad_fns, 'two_theta', loc(fi),
                 {'computed': T.show(got), 'accepted': [T.show(kahan), T.show(alt)], 'math_calls': used,
                  'unstable_calls': bad_fns, 'path': cond_text(out)}, key='two_theta')
        sh = angle_shape(got)
        ok = False
        if sh is not None:
            c, y, x = sh
            ok = (c == 2 and nonneg(y) and nonneg(x)) or (c == 1 and nonneg(y))
        r3.check(ok, 'two_theta', loc(fi), {'shape': None if sh is None else {'factor': str(sh[0]), 'y': T.show(sh[1]), 'x': T.show(sh[2])},
                                            'argument': 'atan2(y>=0, x>=0) in [0, pi/2], doubled; or atan2(y>=0, x) in [0, pi]', 'path': cond_text(out)}, key='two_theta')
        ai, as_ = formulas.param_atom('incident_beam'), formulas.param_atom('scattered_beam')
        swapped = got.subst({ai.id: b2, as_.id: b1})
        r4.check(eq_term(swapped, got), 'swap(b1,b2)', loc(fi), {'swapped': T.show(swapped)}, key='swap')
        k = formulas.S('k_scale')
        for nm, atom_, vec in (('scale(b1)', ai, b1), ('scale(b2)', as_, b2)):
            scaled = got.subst({atom_.id: vec * k})
            r4.check(eq_term(scaled, got), nm, loc(fi), {'scaled': T.show(scaled)}, key=nm)
    for name in [*GEOM, 'two_theta']:
        fi_, outs_ = paths(repo, name)
        muts = [e for o_ in outs_ for e in events(o_, 'mutates-param')]
        r5.check(not muts, name, loc(fi_), {'writes': [dict(e.detail, where=e.where) for e in muts[:3]]}, key=name)

    # graph tables
    r6 = run.rule('R6', 'beamline graph entries are one-step sound against the Euclidean definitions', 7)
    D = None
    for tbl, scatter, ltot in (('beamline(scatter=True)', True, 'Ltotal'), ('beamline(scatter=False)', False, 'Ltotal_no_scatter')):
        table = beamline_graph(repo, scatter)  # through the public factory, not a private table name
        # the flag is used for its truth value (numpy booleans and 0/1 flags select the same graph)
        alt = beamline_graph(repo, 1 if scatter else 0)
        same = set(alt) == set(table) and all(isinstance(alt[k], FuncRef) and isinstance(table[k], FuncRef) and alt[k].fi.fq == table[k].fi.fq for k in table)
        r6.check(same, f'{tbl}: a truthy / falsy flag selects the same graph', 'scippneutron/conversion/graph/beamline.py:beamline',
                 {'keys_for_bool': sorted(map(str, table)), 'keys_for_int_flag': sorted(map(str, alt))}, key=f'{tbl}:truthiness')
        for key, ref in table.items():
            if not isinstance(ref, FuncRef):
                raise AnalysisError(f'{tbl}[{key!r}] is not a function of the package')
            kfi = ref.fi
            specs = specs_for(kfi)
            outs = returns(run_kernel(repo, kfi, specs))
            D = formulas.geometry_definitions()
            D['source_position'], D['sample_position'], D['position'] = V('source_position'), V('sample_position'), V('position')
            mapping = {}
            for p in specs:
                a = formulas.param_atom(p)
                if a is not None:
                    if p not in D:
                        raise AnalysisError(f'no definition for graph input {p}')
                    mapping[a.id] = D[p]
            want = D[ltot if key == 'Ltotal' else key] if (key in D or key == 'Ltotal') else None
            inst = f'{tbl}[{key}] = {kfi.qualname}'
            if want is None:
                run.extra.setdefault('unspecified_graph_nodes', []).append(inst)
                continue
            wants = [want]
            if key == 'two_theta':
                wants.append(formulas.cross_dot_angle(D['incident_beam'], D['scattered_beam']))
            for o in outs:
                got_ = term_of(o.value, kfi).subst(mapping)
                r6.check(any(eq_term(got_, w) for w in wants), inst, f'src/scippneutron/conversion/graph/beamline.py:{tbl}',
                         {'computed': T.show(got_), 'definition': T.show(want)}, key=inst)
    # ---- R7: the public accessors (scn.L1, scn.two_theta, ...) hand out what the beamline graph derives ---------------------
    r7 = run.rule('R7', 'beamline_components accessors return the coordinate derived by transform_coords with the beamline graph of the requested '
                        'scatter mode, unchanged in value, unit and dtype (data of any dtype)', 9)
    from sa.interp import Interp, SVar
    from sa.scipp_model import Model
    from sa.units import Unit

    class _AccessorModel(Model):
        """transform_coords is scipp's: it returns a data array that carries the requested coordinate (a fresh float64 variable here)."""

        def __init__(self):
            super().__init__()
            self.calls = []
            self.derived = None

        def call_method(self, interp, recv, name, args, kwargs, node):
            if isinstance(recv, SVar) and name == 'transform_coords':
                target = args[0] if args else kwargs.get('targets')
                self.calls.append({'target': target, 'graph': kwargs.get('graph', args[1] if len(args) > 1 else None), 'kwargs': {k: v for k, v in kwargs.items() if k != 'graph'}})
                self.derived = self.new(interp, Rat.sym('derived'), Unit.named('m'), 'float64')
                interp.track(self.derived) if hasattr(interp, 'track') else None
                tmp = self.new(interp, recv.term, recv.unit, recv.dtype)
                tmp.kind = recv.kind
                tmp.members['coords'] = {target: self.derived} if isinstance(target, str) else {}
                return tmp
            return super().call_method(interp, recv, name, args, kwargs, node)

    bmod = repo.module('beamline_components')
    # the accessors: the public functions of the module that take the data as `da`
    accessors = [(n, f) for n, f in sorted(bmod.functions.items()) if not n.startswith('_') and [a.arg for a in f.node.args.args][:1] == ['da']]
    if len(accessors) < 6:
        raise AnalysisError(f'beamline_components has only {len(accessors)} public accessors')
    for name, afi in accessors:
        params = [a.arg for a in afi.node.args.args + afi.node.args.kwonlyargs]
        for scatter in ((True, False) if 'scatter' in params else (None,)):
            for data_dtype in ('float32', 'float64', 'int64'):
                T.reset()
                am = _AccessorModel()
                ait = Interp(repo, am)

                def go(i, afi=afi, scatter=scatter, data_dtype=data_dtype):
                    da = SVar(Rat.sym('counts'), Unit.named('counts'), data_dtype, origin='da')
                    da.kind = 'dataarray'
                    da.members['coords'] = {}
                    i.track(da)
                    return i.call_function(afi, [da], {} if scatter is None else {'scatter': scatter})
                outs = ait.run_all(go)
                inst = f'{name}' + ('' if scatter is None else f'[scatter={scatter}]') + f' on {data_dtype} data'
                rets = [o for o in outs if o.kind == 'return']
                ok = len(outs) == 1 and len(rets) == 1 and len(am.calls) == 1
                detail = {'outcomes': [(o.kind, o.exc_type, o.where) for o in outs], 'transform_coords_calls': len(am.calls)}
                if ok:
                    call_ = am.calls[0]
                    want_graph = beamline_graph(repo, True if scatter is None else scatter)
                    g = call_['graph']
                    same_graph = isinstance(g, dict) and sorted(map(str, g)) == sorted(map(str, want_graph)) and \
                        all(isinstance(g[k], FuncRef) and isinstance(want_graph[k], FuncRef) and g[k].fi.fq == want_graph[k].fi.fq for k in g)
                    lossy = [dict(e.detail, where=e.where) for e in events(rets[0], 'narrowing-cast', 'int-unit-conversion')]
                    v = rets[0].value
                    same_value = v is am.derived or (isinstance(v, SVar) and isinstance(v.term, Rat) and v.term.eq(am.derived.term)
                                                     and v.unit == am.derived.unit and v.dtype == am.derived.dtype)
                    ok = call_['target'] == name and same_graph and same_value and not lossy
                    detail = {'coordinate_requested': call_['target'], 'graph_is_the_beamline_graph': same_graph,
                              'returns_the_derived_coordinate_unchanged': same_value, 'lossy_conversions': lossy[:2]}
                r7.check(ok, inst, loc(afi), detail, key=f'accessor:{name}')

    # ---- R8: the geometry kernels answer from their arguments alone ------------------------------------------------------
    r8 = run.rule('R8', 'results do not depend on call history: two-call histories of the geometry kernels in one world (another kernel first, '
                        'other units, the same variables updated in place, new variables holding the same values): the second call returns '
                        'what it returns in a fresh interpreter; no memoised object is handed out', 7)
    from .common import history_free, kernel_histories
    kfis = [repo.func('conversion.beamline', n_) for n_ in [*GEOM, 'two_theta']]
    history_free(repo, kfis, r8, histories=kernel_histories(repo, kfis))
    return run
