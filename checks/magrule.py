"""Magnitude rule shared by C05 and C07: over the unit grid and the value ranges the property quantifies over, no
single-precision intermediate that is a power product of the inputs and constants (scale factors, unit-scaled
constants) may leave the normal range of float32.  Exact for power products (sa/magnitude.py)."""

from __future__ import annotations

import dataclasses
import itertools
import math

from sa import magdomain as MD
from sa import magnitude as M
from sa import term as T
from sa.interp import Interp
from sa.kernel import P, make_param, specs_for
from sa.scipp_model import Model
from sa.term import Rat
from sa.units import parse_unit

# SI ranges per parameter name (flight paths 0.1 m .. 1 km, thermal/cold neutron energies and wavelengths)
RANGES = {
    'tof': (1e-6, 2e2), 'Ltotal': (0.1, 1e3), 'L1': (0.1, 1e3), 'L2': (0.1, 1e3),
    'incident_energy': (1.602176634e-25, 1.602176634e-18), 'final_energy': (1.602176634e-25, 1.602176634e-18),
    'energy': (1.602176634e-25, 1.602176634e-18), 'wavelength': (1e-11, 1e-8), 'dspacing': (1e-11, 1e-8),
    'Q': (1e7, 1e12), 'two_theta': (1e-3, 3.14159),
    '|incident_beam|': (0.1, 1e3), '|scattered_beam|': (0.1, 1e3), '|gravity|': (1.0, 100.0),
}
UNIT_GRID = {
    'T': ('ns', 'us', 'ms', 's'), 'L': ('angstrom', 'mm', 'm', 'km'), 'ENERGY': ('ueV', 'meV', 'eV', 'J'),
    'ANGLE': ('deg', 'rad'), 'INVL': ('1/angstrom', '1/nm', '1/m'), 'ACCEL': ('mm/s**2', 'm/s**2'),
}
LENGTH_LIKE_WAVELENGTH = ('angstrom', 'nm', 'm')


def worst_f32(repo, fi, fixed_same=None, corners=False):
    """The worst out-of-range float32 power product of kernel `fi` over the unit grid, or None.
    fixed_same: groups of parameters that share one unit choice (e.g. L1 and L2)."""
    specs = specs_for(fi)
    names = [n for n, s in specs.items() if (s.kind == 'scalar' and n in RANGES) or (s.kind == 'vector' and f'|{n}|' in RANGES)]
    if len(names) != len(specs):
        return None, 0, 0  # kernels with matrix operands or operands without a physical range are outside this rule
    groups = []
    seen = set()
    for n in names:
        if n in seen:
            continue
        g = [n]
        for grp in (fixed_same or ()):
            if n in grp:
                g = [x for x in grp if x in names]
        seen.update(g)
        groups.append(g)
    choices = []
    for g in groups:
        dim = specs[g[0]].dim
        grid = LENGTH_LIKE_WAVELENGTH if g[0] in ('wavelength', 'dspacing') else UNIT_GRID.get(dim)
        if grid is None:
            return None, 0, 0
        # a power product is monotone in every unit scale: its extremes over the grid are at the corners
        choices.append((grid[0], grid[-1]) if corners else grid)
    worst = None
    n_runs = 0
    n_products = 0
    for combo in itertools.product(*choices):
        units = {}
        for g, u in zip(groups, combo, strict=True):
            for n in g:
                units[n] = u
        T.reset()
        model = Model()
        model.narrow_log = []
        model.mag_log = []
        it = Interp(repo, model)

        def go(i, units=units):
            kw = {n: make_param(i, n, dataclasses.replace(specs[n], unit=parse_unit(u)), 'float32' if specs[n].kind == 'scalar' else None)
                  for n, u in units.items()}
            for n, v in kw.items():  # forward magnitude domain: the range of the number stored in the chosen unit
                rng, sc_ = RANGES.get(n), MD.unit_scale_log10(v.unit)
                if rng is not None and sc_ is not None and specs[n].kind == 'scalar':
                    v.mag = (math.log10(rng[0]) - sc_, math.log10(rng[1]) - sc_)
            return i.call_function(fi, [], kw)
        outs = it.run_all(go)
        n_runs += 1
        if not any(o.kind == 'return' for o in outs):
            return {'units': units, 'problem': f'kernel raises for float32 inputs: {[(o.exc_type, o.where) for o in outs][:2]}', 'where': None}, n_runs, n_products
        # sums and differences (and whatever is computed from them): bounds of the forward magnitude domain
        for mag, where, term, unit in model.mag_log:
            if _is_power_product(term):
                continue  # decided exactly from the term below
            lo, hi = mag
            out_lo, out_hi = lo < M.F32_MIN_NORMAL, hi > M.F32_MAX
            n_products += 1
            if out_lo or out_hi:
                sev = (M.F32_MIN_NORMAL - lo) if out_lo else (hi - M.F32_MAX)
                if worst is None or sev > worst['_sev']:
                    worst = {'_sev': sev, 'units': units, 'value': (T.show(term)[:120] if term is not None else '?'), 'stored_in_unit': repr(unit), 'where': where,
                             'log10_magnitude_of_nonzero_values': [round(lo, 1), round(hi, 1)], 'bound': 'forward interval arithmetic (sums: at least eps/4 of the larger lower bound)',
                             'float32_normal_range_log10': [round(M.F32_MIN_NORMAL, 1), round(M.F32_MAX, 1)]}
        for v, where in model.narrow_log:
            if not isinstance(v.term, Rat) or v.unit is None or len(v.term.num) != 1 or len(v.term.den) != 1:
                continue  # only power products: their magnitude interval is exact
            try:
                lo, hi = M.interval(v.term / v.unit.scale(), RANGES)
            except (M.Unbounded, T.EvalError, KeyError):
                continue
            n_products += 1
            out_lo = lo is not None and lo < M.F32_MIN_NORMAL
            out_hi = hi is not None and hi > M.F32_MAX
            if out_lo or out_hi:
                sev = (M.F32_MIN_NORMAL - lo) if out_lo else (hi - M.F32_MAX)
                if worst is None or sev > worst['_sev']:
                    worst = {'_sev': sev, 'units': units, 'value': T.show(v.term)[:120], 'stored_in_unit': repr(v.unit), 'where': where,
                             'log10_magnitude': [None if lo is None else round(lo, 1), None if hi is None else round(hi, 1)],
                             'float32_normal_range_log10': [round(M.F32_MIN_NORMAL, 1), round(M.F32_MAX, 1)]}
    if worst is not None:
        worst = {k: v for k, v in worst.items() if k != '_sev'}
    return worst, n_runs, n_products


def _is_power_product(term) -> bool:
    return isinstance(term, Rat) and len(term.num) == 1 and len(term.den) == 1


# ---- C01: the wide box of the property, conditioned on a representable result -------------------------------------
WIDE = {k: (1e-9, 1e9) for k in ('tof', 'Ltotal', 'wavelength', 'dspacing', 'energy')}
WIDE['Q'] = (1e-9, 1e9)
WIDE['fn:sin'] = (1e-6, 1.0)  # sin(theta) for scattering angles in (0, pi] (down to a micro-radian)
# a subnormal float32 x carries a relative error of up to 2**-150 / x: more than 1e-5 below 7e-41
F32_ACCURATE_MIN = math.log10(7.0e-41)


def worst_f32_given_result(repo, fi, corners=True):
    """Over the unit grid and the box WIDE: the worst float32 power-product intermediate that overflows, or falls below the
    magnitude at which a subnormal float32 still has 1e-5 relative accuracy, for inputs whose exact *result* is a normal
    float32 number.  Exact (vertex enumeration of the polytope box x result slab in log space)."""
    specs = specs_for(fi)
    names = [n for n, s_ in specs.items() if s_.kind == 'scalar' and (n in WIDE or s_.dim == 'ANGLE')]
    if len(names) != len(specs):
        return None, 0, 0
    choices = []
    for n in names:
        grid = LENGTH_LIKE_WAVELENGTH if n in ('wavelength', 'dspacing') else UNIT_GRID.get(specs[n].dim)
        if grid is None:
            return None, 0, 0
        choices.append((grid[0], grid[-1]) if corners else grid)
    worst, n_runs, n_checked = None, 0, 0
    for combo in itertools.product(*choices):
        units = dict(zip(names, combo, strict=True))
        T.reset()
        model = Model()
        model.narrow_log = []
        it = Interp(repo, model)

        def go(i, units=units):
            kw = {n: make_param(i, n, dataclasses.replace(specs[n], unit=parse_unit(u)), 'float32') for n, u in units.items()}
            return i.call_function(fi, [], kw)
        outs = [o for o in it.run_all(go) if o.kind == 'return']
        n_runs += 1
        if len(outs) != 1 or not isinstance(getattr(outs[0].value, 'term', None), Rat) or outs[0].value.unit is None:
            continue
        res = outs[0].value
        try:
            cond = M.loglinear(res.term / res.unit.scale(), WIDE)
        except (M.Unbounded, T.EvalError, KeyError):
            continue
        for v, where in model.narrow_log:
            if not _is_power_product(v.term) or v.unit is None:
                continue
            try:
                obj = M.loglinear(v.term / v.unit.scale(), WIDE)
                ci = M.conditional_interval(obj, cond, WIDE, (M.F32_MIN_NORMAL, M.F32_MAX))
            except (M.Unbounded, T.EvalError, KeyError):
                continue
            if ci is None:
                continue
            n_checked += 1
            lo, hi = ci
            out_lo, out_hi = lo < F32_ACCURATE_MIN - 1e-6, hi > M.F32_MAX + 1e-6
            if out_lo or out_hi:
                sev = (F32_ACCURATE_MIN - lo) if out_lo else (hi - M.F32_MAX)
                if worst is None or sev > worst['_sev']:
                    worst = {'_sev': sev, 'units': units, 'value': T.show(v.term)[:120], 'stored_in_unit': repr(v.unit), 'where': where,
                             'log10_magnitude_when_the_result_is_a_normal_float32': [round(lo, 1), round(hi, 1)],
                             'float32_limits_log10': [round(F32_ACCURATE_MIN, 1), round(M.F32_MAX, 1)]}
    if worst is not None:
        worst = {k: v for k, v in worst.items() if k != '_sev'}
    return worst, n_runs, n_checked
