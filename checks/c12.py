"""C12 — every SQW file written is a structurally complete, self-consistent container."""

from __future__ import annotations

import ast

from sa import term as T
from sa.cfg import CFG
from sa.load import AnalysisError, Repo, loc
from sa.report import Run
from sa.term import Rat

BUILD, LOW, SQW, RW, MODELS, IR, BYTES = ('io.sqw._build', 'io.sqw._low_level_io', 'io.sqw._sqw', 'io.sqw._read_write',
                                          'io.sqw._models', 'io.sqw._ir', 'io.sqw._bytes')
PRIM_SIZE = {'u8': 1, 'logical': 1, 'u32': 4, 'u64': 8, 'f64': 8}
ITEMSIZE = {'float64': 8, 'float32': 4, 'uint64': 8, 'int64': 8, 'uint32': 4}


def norm_(node) -> str:
    return ast.unparse(node).replace(' ', '')


def stmts(fn) -> list[str]:
    return [norm_(s) for s in ast.walk(fn) if isinstance(s, ast.stmt)
            and not isinstance(s, ast.FunctionDef | ast.If | ast.For | ast.Try | ast.With | ast.While)]


class Wire:
    """Extract the sequence of low-level reads/writes a function performs on its sqw_io."""

    def __init__(self, repo: Repo, direction: str):
        self.repo = repo
        self.dir = direction  # 'write' | 'read'

    def of(self, fi, receivers=('sqw_io', 'self._sqw_io')):
        self.fi = fi
        self.receivers = receivers
        self.local_dtypes = {}
        for n in ast.walk(fi.node):
            if isinstance(n, ast.Assign) and isinstance(n.targets[0], ast.Name) and isinstance(n.value, ast.Call):
                d = self._np_dtype(n.value)
                if d:
                    self.local_dtypes[n.targets[0].id] = d
        out = self._body(fi.node.body)
        # everything after the first seek() patches earlier bytes and is not part of the layout
        return out

    def _np_dtype(self, call: ast.Call):
        f = ast.unparse(call.func)
        if f.split('.')[-1] in ('zeros', 'empty', 'ones', 'full', 'dtype'):
            for k in call.keywords:
                if k.arg == 'dtype':
                    return ast.unparse(k.value).strip('\'"').replace('np.', '').replace('numpy.', '')
            if f.endswith('dtype') and call.args and isinstance(call.args[0], ast.Constant):
                return call.args[0].value
        return None

    def _body(self, body):
        out = []
        for st in body:
            if isinstance(st, ast.Expr | ast.Assign | ast.AnnAssign | ast.AugAssign | ast.Return):
                out += self._expr(st.value) if getattr(st, 'value', None) is not None else []
            elif isinstance(st, ast.For):
                inner = self._body(st.body)
                pre = self._expr(st.iter)
                out += pre
                if inner:
                    out.append(('loop', norm_(st.iter), inner))
            elif isinstance(st, ast.If):
                a, b = self._body(st.body), self._body(st.orelse)
                pre = self._expr(st.test)
                out += pre
                if a and b and a != b:
                    out.append(('alt', a, b))
                elif a or b:
                    out += a or b
            elif isinstance(st, ast.With):
                out += self._body(st.body)
            elif isinstance(st, ast.Match):
                pass
            if any(isinstance(n, ast.Call) and isinstance(n.func, ast.Attribute) and n.func.attr == 'seek' and norm_(n.func.value) in self.receivers
                   for n in ast.walk(st)):
                break
        return out

    def _expr(self, e):
        """Calls in evaluation order (arguments before the call)."""
        out = []
        if isinstance(e, ast.Call):
            for a in e.args:
                out += self._expr(a)
            for k in e.keywords:
                out += self._expr(k.value)
            f = e.func
            if isinstance(f, ast.Attribute) and norm_(f.value) in self.receivers and f.attr.startswith(self.dir + '_'):
                prim = f.attr[len(self.dir) + 1:]
                if prim == 'array':
                    dt = None
                    if self.dir == 'write' and e.args:
                        a0 = e.args[0]
                        base = a0.value if isinstance(a0, ast.Subscript) else a0
                        if isinstance(base, ast.Name):
                            dt = self.local_dtypes.get(base.id)
                        elif isinstance(base, ast.Call):
                            dt = self._np_dtype(base)
                    elif self.dir == 'read' and len(e.args) > 1 and isinstance(e.args[1], ast.Call):
                        dt = self._np_dtype(e.args[1])
                    out.append(('array', dt))
                elif prim in ('raw',):
                    out.append(('raw', None))
                else:
                    out.append((prim, None))
            elif isinstance(f, ast.Name) and f.id in self.repo.module(self.fi.module).functions and e.args and norm_(e.args[0]) in self.receivers:
                sub = Wire(self.repo, self.dir).of(self.repo.module(self.fi.module).functions[f.id], receivers=('sqw_io',))
                out += sub
            else:
                out += self._expr(f) if not isinstance(f, ast.Name) else []
        elif isinstance(e, ast.ListComp | ast.GeneratorExp | ast.DictComp | ast.SetComp):
            inner = self._expr(e.elt if not isinstance(e, ast.DictComp) else e.value)
            if inner:
                out.append(('loop', norm_(e.generators[0].iter), inner))
        elif isinstance(e, ast.AST):
            for ch in ast.iter_child_nodes(e):
                if isinstance(ch, ast.expr):
                    out += self._expr(ch)
        return out


def flatten_chunks(sig):
    """A loop that only writes array chunks is one array on the wire."""
    out = []
    for s in sig:
        if s[0] == 'loop' and len(s[2]) == 1 and s[2][0][0] == 'array':
            out.append(s[2][0])
        elif s[0] == 'loop':
            out.append(('loop', None, flatten_chunks(s[2])))
        else:
            out.append(s)
    return out


def strip_keys(sig):
    out = []
    for s in sig:
        if s[0] == 'loop':
            out.append(('loop', strip_keys(s[2])))
        elif s[0] == 'alt':
            out.append(('alt', strip_keys(s[1]), strip_keys(s[2])))
        else:
            out.append(s)
    return out


def sym_eval(e, env):
    """Evaluate a size() expression over symbols with the exact term algebra."""
    k = norm_(e)
    if k in env:
        return env[k]
    if isinstance(e, ast.Constant) and isinstance(e.value, int | float):
        return Rat.const(e.value)
    if isinstance(e, ast.BinOp):
        a, b = sym_eval(e.left, env), sym_eval(e.right, env)
        if isinstance(e.op, ast.Add):
            return a + b
        if isinstance(e.op, ast.Sub):
            return a - b
        if isinstance(e.op, ast.Mult):
            return a * b
    if isinstance(e, ast.Call) and norm_(e.func) == 'int' and e.args:
        return sym_eval(e.args[0], env)
    raise AnalysisError(f'size expression outside the recognised subset: {k}')


def run(tier: str) -> Run:
    run = Run('C12', tier, 'other',
              'I/O effect analysis of the SQW writer and reader.  Each function gets a wire signature: the '
              'ordered primitives (u8/u32/u64/f64/char_array/array<dtype>) it writes or reads, with loops.  '
              'Decided: (R1) writer and reader signatures agree for the file header, the block allocation '
              'table, block descriptors, the pixel block and the histogram block; (R2) the declared size() of '
              'the pixel and histogram blocks equals the symbolic byte count of their write() (the chunked '
              'pixel loop must iterate over the pixel count it declared), and regular blocks declare the length '
              'of the very buffer that is written; (R3) block positions start right after the table and advance '
              'by the declared sizes in the same dict order the write loop uses; (R4) block order is the '
              'canonical order, independent of builder call order; (R5) the header constants are horace / 4.0 and '
              'the first field is a short char array, which makes byte-order deduction correct; (R6) every '
              'multi-byte primitive honours the byte order and every match on byte order / block type is '
              'exhaustive; (R7) every type tag the models emit has a registered writer and reader.  numpy '
              'tofile/tobytes byte counts are modelled as size*itemsize.')
    repo = Repo()
    run.analysed = {'modules': [BUILD, LOW, SQW, RW, MODELS, IR, BYTES], 'digest': repo.digest.hexdigest()}
    run.trusted = ['numpy writes size*itemsize bytes for an array', 'sa/cfg.py']
    W, R = Wire(repo, 'write'), Wire(repo, 'read')

    # ---- R1 --------------------------------------------------------------------
    r1 = run.rule('R1', 'writer and reader wire signatures agree', 5)
    pairs = [
        ('file header', (BUILD, '_write_file_header'), (SQW, '_read_file_header')),
        ('block descriptor', (BUILD, '_write_data_block_descriptor'), (SQW, '_read_data_block_descriptor')),
        ('block allocation table', (BUILD, 'SqwBuilder._serialize_block_allocation_table'), (SQW, '_read_block_allocation_table')),
        ('pixel block', (BUILD, '_PixWrap.write'), (SQW, '_read_pix_block')),
        ('histogram block', (BUILD, '_DndPlaceholder.write'), (SQW, '_read_dnd_block')),
    ]
    sigs = {}
    for label, w, r in pairs:
        wfi, rfi = repo.func(*w), repo.func(*r)
        ws = strip_keys(flatten_chunks(W.of(wfi)))
        rs = strip_keys(flatten_chunks(R.of(rfi)))
        sigs[label] = (ws, rs)
        r1.check(ws == rs and bool(ws), label, loc(wfi), {'writer': repr(ws), 'reader': repr(rs)}, key=label)

    # ---- R2 sizes ----------------------------------------------------------------------
    r2 = run.rule('R2', 'declared block size equals the bytes written', 3)
    # histogram block
    dw, dsz = repo.func(BUILD, '_DndPlaceholder.write'), repo.func(BUILD, '_DndPlaceholder.size')
    ND, NE = Rat.sym('n_dims', True), Rat.sym('n_elem', True)
    sig = W.of(dw)
    total = Rat.const(0)
    ok = True
    for s in sig:
        if s[0] in PRIM_SIZE:
            total = total + PRIM_SIZE[s[0]]
        elif s[0] == 'loop' and s[1] == 'self.shape' and [x[0] for x in s[2]] == ['u32']:
            total = total + 4 * ND
        elif s[0] == 'array' and s[1] in ITEMSIZE:
            total = total + ITEMSIZE[s[1]] * NE
        else:
            ok = False
    env = {'len(self.shape)': ND, 'n_elem': NE}
    sz_ret = [s for s in ast.walk(dsz.node) if isinstance(s, ast.Return)]
    ne_def = 'n_elem=int(np.prod(self.shape))' in stmts(dsz.node)
    arr_shapes = [norm_(c.args[0]) for c in ast.walk(dw.node) if isinstance(c, ast.Call) and norm_(c.func).split('.')[-1] == 'zeros' and c.args]
    declared = sym_eval(sz_ret[0].value, env) if len(sz_ret) == 1 else None
    r2.check(ok and ne_def and declared is not None and declared.eq(total) and all(a == 'self.shape' for a in arr_shapes) and len(arr_shapes) >= 1,
             'histogram block', loc(dsz), {'declared': T.show(declared) if declared is not None else None, 'written': T.show(total), 'signature': repr(sig)}, key='dnd-size')
    # pixel block: chunk-loop idiom
    pw, psz = repo.func(BUILD, '_PixWrap.write'), repo.func(BUILD, '_PixWrap.size')
    loops = [n for n in pw.node.body if isinstance(n, ast.For)]
    if len(loops) != 1:
        raise AnalysisError('_PixWrap.write: the chunked-copy loop idiom (one top-level for over range(0, N, chunk_size)) is not recognised')
    lp = loops[0]
    it_ = lp.iter
    idiom = isinstance(it_, ast.Call) and norm_(it_.func) == 'range' and len(it_.args) == 3 and norm_(it_.args[0]) == '0' and norm_(it_.args[2]) == 'chunk_size'
    texts = stmts(pw.node)
    bound = norm_(it_.args[1]) if idiom else None
    rem = [t_[len('remaining='):] for t_ in texts if t_.startswith('remaining=')]
    header = [norm_(c.args[0]) for c in ast.walk(pw.node) if isinstance(c, ast.Call) and norm_(c.func) == 'sqw_io.write_u64' and c.args]
    rows_hdr = [norm_(c.args[0]) for c in ast.walk(pw.node) if isinstance(c, ast.Call) and norm_(c.func) == 'sqw_io.write_u32' and c.args]
    buf = [t_ for t_ in texts if t_.startswith('buffer=np.empty(')]
    loopvar = norm_(lp.target)
    body = stmts(lp)
    idiom = idiom and 'n=min(chunk_size,remaining)' in body and 'remaining-=n' in body and 'sqw_io.write_array(buffer[:n])' in body \
        and any(f'row[{loopvar}:{loopvar}+chunk_size]' in t_ for t_ in body)
    counts = {'loop bound': bound, 'remaining': rem[0] if rem else None, 'declared count': header[0] if header else None,
              'buffer rows': buf[0][len('buffer=np.empty(('):].split(',')[0] if buf else None}
    same = idiom and len(set(counts.values())) == 1 and None not in counts.values()
    NP, NR = Rat.sym('n_pixels', True), Rat.sym('n_rows', True)
    env = {'self.n_rows()': NR, 'self.n_pixels()': NP}
    sz_ret = [s for s in ast.walk(psz.node) if isinstance(s, ast.Return)]
    declared = sym_eval(sz_ret[0].value, env) if len(sz_ret) == 1 else None
    written = 4 + 8 + NR * 4 * NP
    r2.check(same and declared is not None and declared.eq(written) and rows_hdr == ['self.n_rows()'] and counts['loop bound'] == 'self.n_pixels()'
             and buf and 'dtype=np.float32' in buf[0] and ',self.n_rows())' in buf[0],
             'pixel block', loc(pw, lp), {'counts_that_must_be_one_expression': counts, 'idiom_recognised': idiom,
                                          'declared': T.show(declared) if declared is not None else None, 'written_if_loop_covers_all_pixels': T.show(written)},
             key='pix-size')
    # regular blocks
    sfi = repo.func(BUILD, 'SqwBuilder._serialize_data_blocks')
    texts = stmts(sfi.node)
    src = norm_(sfi.node)
    r2.check('buf=buffer.getbuffer()' in texts and 'buffers[name]=buf' in texts and 'size=len(buf)' in src and 'size=self._dnd_placeholder.size()' in src
             and 'size=self._pix_wrap.size()' in src, 'regular blocks declare len() of the buffer written', loc(sfi), {}, key='regular-size')

    # ---- R3 extents ----------------------------------------------------------------------------
    r3 = run.rule('R3', 'extents start after the table, advance by the declared sizes, in the order the blocks are written', 4)
    keys_b = [norm_(n.targets[0].slice) for n in ast.walk(sfi.node) if isinstance(n, ast.Assign) and isinstance(n.targets[0], ast.Subscript) and norm_(n.targets[0].value) == 'buffers']
    keys_d = [norm_(n.targets[0].slice) for n in ast.walk(sfi.node) if isinstance(n, ast.Assign) and isinstance(n.targets[0], ast.Subscript) and norm_(n.targets[0].value) == 'descriptors']
    rets = [n for n in ast.walk(sfi.node) if isinstance(n, ast.Return)]
    r3.check(keys_b == keys_d and len(keys_b) == 3 and len(rets) == 1 and norm_(rets[0].value) == '(buffers,descriptors)', 'buffers and descriptors are filled pairwise and returned as built',
             loc(sfi), {'buffer_keys': keys_b, 'descriptor_keys': keys_d, 'returns': norm_(rets[0].value) if rets else None}, key='pairwise')
    bfi = repo.func(BUILD, 'SqwBuilder._serialize_block_allocation_table')
    texts = stmts(bfi.node)
    bsrc = norm_(bfi.node)
    pos_ok = 'block_position=bat_offset+sqw_io.position' in texts and 'block_position+=descriptor.size' in texts \
        and 'sqw_io.write_u64(block_position)' in texts and 'amended_descriptors[name]=dataclasses.replace(descriptor,position=block_position)' in texts
    bcfg = CFG(bfi.node)
    order = [norm_(s) for s in bfi.node.body]
    idx_table = next((i for i, s in enumerate(order) if s.startswith('position_offsets=')), -1)
    idx_pos = next((i for i, s in enumerate(order) if s.startswith('block_position=bat_offset+')), -1)
    idx_loop = next((i for i, s in enumerate(order) if s.startswith('forname,descriptorinblock_descriptors.items():')), -1)
    r3.check(pos_ok and 0 <= idx_table < idx_pos < idx_loop and 'forname,descriptorinblock_descriptors.items()' in bsrc
             and 'sqw_io.write_u32(bat_size)' in texts and 'bat_size=sqw_io.position-bat_begin' in texts,
             'positions = table end + running sum of sizes', loc(bfi), {'order': [s[:50] for s in order]}, key='positions')
    cfi = repo.func(BUILD, 'SqwBuilder.create')
    ctexts = stmts(cfi.node)
    csrc = norm_(cfi.node)
    order = ['_write_file_header(sqw_io,self._make_file_header())', 'block_buffers,block_descriptors=self._serialize_data_blocks()',
             'sqw_io.write_raw(bat_buffer)']
    pos = [csrc.find(o) for o in order] + [csrc.find('bat_offset=sqw_io.position'), csrc.find('forname,bufferinblock_buffers.items():')]
    r3.check(all(p >= 0 for p in pos) and pos[0] < pos[1] < pos[3] < pos[2] < pos[4] and 'descriptor=block_descriptors[name]' in ctexts,
             'header, table, then blocks in buffer order', loc(cfi), {'positions_in_source': pos}, key='create-order')
    # each block type is written by its own writer
    m = [n for n in ast.walk(cfi.node) if isinstance(n, ast.Match)]
    cases = {}
    if m:
        for c in m[0].cases:
            cases[norm_(c.pattern)] = [norm_(s) for s in c.body][:1]
    r3.check(cases.get('SqwDataBlockType.regular') == ['sqw_io.write_raw(buffer)'] and cases.get('SqwDataBlockType.pix') == ['self._pix_wrap.write(sqw_io,chunk_size=chunk_size)']
             and cases.get('SqwDataBlockType.dnd') == ['self._dnd_placeholder.write(sqw_io)'], 'block type -> writer', loc(cfi), {'cases': cases}, key='dispatch')

    # ---- R4 canonical order ----------------------------------------------------------------------
    r4 = run.rule('R4', 'block order is the canonical order and every block name the builder uses is in it', 2)
    ofi = repo.func(BUILD, '_to_canonical_block_order')
    order_lit = None
    for n in ast.walk(ofi.node):
        if isinstance(n, ast.Assign) and norm_(n.targets[0]) == 'order':
            order_lit = ast.literal_eval(n.value)
    texts = stmts(ofi.node)
    r4.check(order_lit is not None and 'out={name:blockfornameinorderif(block:=blocks.get(name))isnotNone}' in texts and 'out.update(blocks)' in texts
             and 'returnout' in texts and 'return_to_canonical_block_order(blocks)' in stmts(repo.func(BUILD, 'SqwBuilder._prepare_data_blocks').node),
             'canonical order applied to the prepared blocks', loc(ofi), {'order': order_lit}, key='canonical')
    used = set()
    bmi = repo.module(BUILD)
    for n in ast.walk(bmi.tree):
        if isinstance(n, ast.Subscript) and norm_(n.value) in ('self._data_blocks', 'blocks', 'buffers', 'descriptors') and isinstance(n.slice, ast.Tuple):
            try:
                used.add(ast.literal_eval(n.slice))
            except ValueError:
                pass
    r4.check(order_lit is not None and used <= set(order_lit) and len(used) >= 6, 'all block names are canonical', loc(ofi),
             {'used': sorted(used), 'not_in_order': sorted(used - set(order_lit or ()))}, key='names')

    # ---- R5 header constants / byte order deduction ------------------------------------------------------
    r5 = run.rule('R5', 'header is horace 4.0; first field is a short char array; byte order deduced from its length', 2)
    hfi = repo.func(BUILD, 'SqwBuilder._make_file_header')
    src = norm_(hfi.node)
    r5.check('prog_name="horace"' in src.replace("'", '"') and 'prog_version=4.0' in src and 'n_dims=self._n_dims' in src and 'sqw_type=SqwFileType.SQW' in src,
             'header constants', loc(hfi), {}, key='header')
    dfi = repo.func(LOW, '_deduce_byteorder')
    texts = stmts(dfi.node)
    first = sigs['file header'][0][:1]
    r5.check(first == [('char_array', None)] and 'le_size=int.from_bytes(buf,"little")'.replace('"', "'") in [t_.replace('"', "'") for t_ in texts]
             and 'be_size=int.from_bytes(buf,"big")'.replace('"', "'") in [t_.replace('"', "'") for t_ in texts]
             and 'buf=file.read(4)' in texts and 'file.seek(pos)' in texts and 'pos=file.tell()' in texts
             and any(isinstance(n, ast.If) and norm_(n.test) == 'le_size<be_size' and norm_(n.body[0]) == 'returnByteorder.little' for n in ast.walk(dfi.node))
             and 'returnByteorder.big' in texts, 'byte-order deduction', loc(dfi), {'first_header_field': first}, key='byteorder-deduce')

    # ---- R6 byte order use and exhaustive matches ------------------------------------------------------------
    r6 = run.rule('R6', 'multi-byte primitives honour the byte order; matches on byte order and block type are exhaustive', 10)
    lcls = repo.cls(LOW, 'LowLevelSqw')
    for mname in ('read_u32', 'read_u64', 'read_f64', 'read_array', 'write_u32', 'write_u64', 'write_f64', 'write_array'):
        mfi = lcls.methods[mname]
        src = norm_(mfi.node)
        r6.check('self._byteorder' in src or 'self.byteorder' in src, f'LowLevelSqw.{mname}', loc(mfi), {}, key=mname)
    bo = repo.cls(BYTES, 'Byteorder')
    members = [norm_(s.targets[0]) for s in bo.node.body if isinstance(s, ast.Assign)]
    bt = repo.cls(MODELS, 'SqwDataBlockType')
    bt_members = [norm_(s.targets[0]) for s in bt.node.body if isinstance(s, ast.Assign)]
    for mod, fname, enum, mem in ((LOW, 'LowLevelSqw.read_f64', 'Byteorder', members), (LOW, 'LowLevelSqw.write_f64', 'Byteorder', members),
                                  (BYTES, 'Byteorder.get', 'Byteorder', members), (BUILD, 'SqwBuilder.create', 'SqwDataBlockType', bt_members),
                                  (SQW, 'Sqw.read_data_block', 'SqwDataBlockType', bt_members)):
        f = repo.func(mod, fname)
        ms = [n for n in ast.walk(f.node) if isinstance(n, ast.Match)]
        covered = set()
        for mm in ms:
            for c in mm.cases:
                p = norm_(c.pattern)
                if p.startswith(enum + '.'):
                    covered.add(p.split('.')[1])
        r6.check(bool(ms) and covered == set(mem), f'{fname}: match on {enum}', loc(f), {'members': mem, 'covered': sorted(covered)}, key=f'{fname}:match')

    # ---- R7 type tags ---------------------------------------------------------------------------------
    r7 = run.rule('R7', 'type tags emitted by the models have registered writers and readers', 1)
    rw = repo.module(RW)
    writers, readers = set(), set()
    for f in rw.functions.values():
        for d in f.decorators():
            if d.startswith('_WRITERS.add(ir.TypeTag.'):
                writers.add(d[len('_WRITERS.add(ir.TypeTag.'):-1])
            if d.startswith('_READERS.add(ir.TypeTag.'):
                readers.add(d[len('_READERS.add(ir.TypeTag.'):-1])
    irm = repo.module(IR)
    tag_of = {}
    for cname, ci in irm.classes.items():
        for st in ci.node.body:
            if isinstance(st, ast.AnnAssign) and norm_(st.target) == 'ty' and st.value is not None and norm_(st.value).startswith('TypeTag.'):
                tag_of[cname] = norm_(st.value).split('.')[1]
    emitted = set()
    mm = repo.module(MODELS)
    reachable = {'SqwMainHeader', 'SqwLineAxes', 'SqwLineProj', 'SqwDndMetadata', 'SqwPixelMetadata', 'SqwIXSource', 'SqwIXNullInstrument',
                 'SqwIXSample', 'SqwIXExperiment', 'SqwMultiIXExperiment', 'UniqueRefContainer', 'UniqueObjContainer'}
    nodes = [ci.node for n_, ci in mm.classes.items() if n_ in reachable] + [f.node for f in mm.functions.values()] \
        + [irm.classes['Serializable'].node, irm.functions['_serialize_field'].node, irm.classes['Struct'].node]
    for root in nodes:
        for n in ast.walk(root):
            if isinstance(n, ast.Call):
                fn = norm_(n.func)
                if fn.startswith('ir.') and fn[3:] in tag_of:
                    emitted.add(tag_of[fn[3:]])
                elif fn in tag_of:
                    emitted.add(tag_of[fn])
            if isinstance(n, ast.Attribute) and norm_(n).startswith(('ir.TypeTag.', 'TypeTag.')):
                emitted.add(n.attr)
    r7.check(emitted <= writers and writers == readers and len(emitted) >= 4, 'emitted tags have writers == readers', loc(rw.functions['write_object_array']),
             {'emitted': sorted(emitted), 'writers': sorted(writers), 'readers': sorted(readers), 'missing': sorted(emitted - writers)}, key='tags')
    return run
