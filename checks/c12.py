"""C12 — every SQW file written is a structurally complete, self-consistent container."""

from __future__ import annotations

import itertools

from sa.absio import LayoutMismatch
from sa.interp import EnumMember, SObj
from sa.load import AnalysisError, Repo, loc, where_of
from sa.report import Run
from spec import sqwfmt

from .sqw_af import BUILD, DND_SHAPE, SQW, build, expected_blocks, reopen

FULL = ('P', 'I', 'S', 'D', 'T')


def configs(tier: str):
    """(calls, byteorder, n_pixels, chunk, n_runs, target, title)"""
    out = []
    orders = [FULL, ('T', 'D', 'S', 'I', 'P'), ('D', 'P', 'T', 'S', 'I')]
    if tier == 'thorough':
        orders = list(itertools.permutations(FULL))[::5]
    for o in orders:
        out.append((o, 'little', 5, 2, 1, 'memory', 'a title'))
    for bo, target in (('big', 'memory'), ('little', 'file'), ('big', 'file')):
        out.append((FULL, bo, 5, 2, 2, target, 'a title'))
    for sub in ((), ('P',), ('D',), ('P', 'D'), ('D', 'P'), ('I', 'S'), ('P', 'I'), ('S', 'P', 'T'), ('T',)):
        out.append((sub, 'little', 3, 2, 1, 'memory', 't'))
    pix = [(0, 3), (1, 1), (5, 5), (5, 8), (12, 5), (12, 9), (12, 20), (10, 1)]
    if tier == 'thorough':
        pix += [(n, c) for n in (2, 7, 9, 10, 18, 19) for c in (1, 2, 3, 9, 10, 11, 40)]
    for n, c in pix:
        out.append((('P', 'D'), 'little' if (n + c) % 2 else 'big', n, c, 1, 'memory', 't'))
    out.append((FULL, 'little', 4, 3, 3, 'memory', ''))
    out.append((FULL, 'big', 4, 3, 1, 'memory', 'x' * 300 + ' é'))
    return out


def run(tier: str) -> Run:
    run = Run('C12', tier, 'other',
              'The SQW builder is interpreted end to end on symbolic inputs with an abstract file (sa/absio.py: concrete bytes '
              'for integers and text, symbolic cells for floating-point numbers, byte order and width included), for a finite '
              'set of configurations: orders and subsets of the builder calls, both byte orders, pixel counts and chunk sizes '
              'below / equal / above each other and the row count, 1..3 runs, in memory and through open(), titles from empty '
              'to 300 characters.  The bytes written are decoded by an independent reader of the documented layout '
              '(spec/sqwfmt.py) and re-opened with the package\'s own reader.  Decided per configuration: (R1) header = '
              'horace / 4.0 / SQW / n_dims and the byte order found from the first field is the one requested, also by '
              'Sqw.open without a byte order; (R2) the block table size field is right, every expected block is listed once, '
              'the order is the same for every order of builder calls, and the extents start at the end of the table, are '
              'contiguous and end at end-of-file; (R3) every extent holds a block of the declared type that decodes completely '
              'and exactly within it, by the independent decoder and by the package reader (pixel block: 9 rows x N pixels of '
              'float32; histogram block: the declared shape, zeros).  numpy tofile/tobytes and frombuffer/fromfile are modelled.')
    repo = Repo()
    run.analysed = {'modules': ['io.sqw._build', 'io.sqw._low_level_io', 'io.sqw._sqw', 'io.sqw._read_write', 'io.sqw._models', 'io.sqw._ir', 'io.sqw._bytes'],
                    'digest': repo.digest.hexdigest()}
    run.trusted = ['sa/absio.py, sa/sqwio.py (numpy / io / struct model)', 'spec/sqwfmt.py (independent decoder)']
    r0 = run.rule('R0', 'the builder completes for every configuration', 20)
    r1 = run.rule('R1', 'header is horace 4.0 SQW with the declared n_dims; byte order found == byte order requested', 20)
    r2 = run.rule('R2', 'block table: size field, each block once, call-order independent order, extents contiguous from the table end to EOF', 20)
    r3 = run.rule('R3', 'each extent holds a block of the declared type that decodes completely and exactly within it', 20)
    cfi = repo.func(BUILD, 'SqwBuilder.create')
    rfi = repo.func(SQW, 'Sqw.read_data_block')
    fails: dict = {'R0': {}, 'R1': {}, 'R2': {}, 'R3': {}}
    reference_order: dict = {}
    n = 0

    def bad(rule, inst, cfg, what):
        fails[rule].setdefault(inst, {'configuration': cfg, 'problem': what})

    for calls, bo, npix, chunk, nruns, target, title in configs(tier):
        cfg = f'calls={"".join(calls) or "-"} byteorder={bo} pixels={npix} chunk={chunk} runs={nruns} target={target} title_len={len(title)}'
        n += 1
        try:
            wr = build(repo, calls, bo, npix, chunk, nruns, target, title)
        except LayoutMismatch as ex:
            bad('R0', 'builder completes', cfg, f'write does not fit the file model: {ex}')
            continue
        if wr.outcome[0] != 'return' or wr.file is None:
            bad('R0', 'builder completes', cfg, f'{wr.outcome}')
            continue
        units = wr.file.units
        # ---- R1
        try:
            order = sqwfmt.detect_order(units)
            c = sqwfmt.Cursor(units, order)
            hdr = sqwfmt.file_header(c)
        except sqwfmt.FormatError as ex:
            bad('R1', 'header decodes', cfg, str(ex))
            continue
        if order != ('<' if bo == 'little' else '>'):
            bad('R1', 'byte order of the file is the one requested', cfg, f'file reads as {order}')
        want_hdr = {'prog_name': 'horace', 'prog_version': 4.0, 'sqw_type': 1, 'n_dims': 4 if 'P' in calls else 0}
        if hdr != want_hdr:
            bad('R1', 'header fields', cfg, f'{hdr} != {want_hdr}')
        kind, sq = reopen(wr)
        if kind != 'return' or not isinstance(sq, SObj):
            bad('R1', 'Sqw.open re-opens the file', cfg, f'{kind} {sq}')
            sq = None
        else:
            # what the re-opened file reports through its public properties
            kb, got_bo = wr.world.call(repo.func(SQW, 'Sqw.byteorder'), [], bound=sq)
            if not (kb == 'return' and isinstance(got_bo, EnumMember) and got_bo.name == bo):
                bad('R1', 'Sqw.open finds the byte order', cfg, f'deduced {got_bo!r}')
            kh, h2 = wr.world.call(repo.func(SQW, 'Sqw.file_header'), [], bound=sq)
            if not (isinstance(h2, SObj) and h2.attrs.get('prog_name') == 'horace' and h2.attrs.get('prog_version') == 4.0 and h2.attrs.get('n_dims') == want_hdr['n_dims']):
                bad('R1', 'header fields', cfg, f'package reader: {h2!r}')
        # ---- R2
        try:
            bt = sqwfmt.block_table(c)
        except sqwfmt.FormatError as ex:
            bad('R2', 'block table decodes', cfg, str(ex))
            continue
        if bt['declared_size'] != bt['actual_size']:
            bad('R2', 'table size field', cfg, f'declares {bt["declared_size"]} bytes, occupies {bt["actual_size"]}')
        names = [b['name'] for b in bt['blocks']]
        want_names = expected_blocks(calls)
        if sorted(names) != sorted(want_names):
            bad('R2', 'every block listed exactly once', cfg, f'listed {names}, expected {want_names}')
        key = tuple(sorted(calls))
        if key in reference_order and reference_order[key] != names:
            bad('R2', 'order independent of the builder calls', cfg, f'{names} vs {reference_order[key]}')
        reference_order.setdefault(key, names)
        pos = bt['end']
        for b in bt['blocks']:
            if b['position'] != pos:
                bad('R2', 'extents are contiguous from the end of the table', cfg, f'block {b["name"]} at {b["position"]}, previous data ends at {pos}')
            pos = b['position'] + b['size']
            want_type = {('pix', 'data_wrap'): 'pix_data_block', ('data', 'nd_data'): 'dnd_data_block'}.get(b['name'], 'data_block')
            if b['block_type'] != want_type or b['locked'] != 0:
                bad('R2', 'declared block types', cfg, f'{b}')
        if pos != len(units):
            bad('R2', 'last extent ends at end-of-file', cfg, f'extents end at {pos}, file has {len(units)} bytes')
        if sq is not None:
            # the names the re-opened file lists (public); that each is found at its position with its size is R3 (the reader ends at the extent end)
            kn, listed = wr.world.call(repo.func(SQW, 'Sqw.data_block_names'), [], bound=sq)
            try:
                listed = list(wr.world.it.iterate(listed, None)) if kn == 'return' else listed
            except AnalysisError:
                pass
            if kn != 'return' or listed != names:
                bad('R2', 'package reader sees the same table', cfg, f'{listed!r}'[:200])
        # ---- R3
        for b in bt['blocks']:
            cur = sqwfmt.Cursor(units, order, b['position'])
            end = b['position'] + b['size']
            try:
                if b['block_type'] == 'pix_data_block':
                    blk = sqwfmt.pixel_block(cur)
                    if blk['n_rows'] != 9 or blk['n_pixels'] != npix:
                        bad('R3', 'pixel block holds 9 rows x N pixels', cfg, f'n_rows={blk["n_rows"]} n_pixels={blk["n_pixels"]}, supplied {npix}')
                elif b['block_type'] == 'dnd_data_block':
                    blk = sqwfmt.histogram_block(cur)
                    if blk['shape'] != DND_SHAPE or any(v != 0 for v in blk['values'] + blk['errors'] + blk['counts']):
                        bad('R3', 'histogram block holds zeros of the declared shape', cfg, f'shape {blk["shape"]}')
                else:
                    tree = sqwfmt.object_array(cur)
                    sqwfmt.the_struct(tree)
            except sqwfmt.FormatError as ex:
                bad('R3', f'{b["block_type"]} decodes within its extent', cfg, f'{b["name"]}: {ex}')
                continue
            if cur.pos != end:
                bad('R3', f'{b["block_type"]} decodes within its extent', cfg, f'{b["name"]}: decoding ends at {cur.pos}, the extent at {end}')
            if sq is not None:
                w = wr.world
                kind, res = w.call(rfi, [b['name']], bound=sq, budget=400_000)
                at = wr.file.tell()
                if kind != 'return':
                    bad('R3', 'package reader decodes every block', cfg, f'{b["name"]}: {kind} {res}')
                elif at != end:
                    bad('R3', 'package reader decodes every block', cfg, f'{b["name"]}: reader stops at {at}, the extent ends at {end}')
    if n < 20:
        raise AnalysisError(f'only {n} configurations interpreted')
    instances = {
        'R0': ['builder completes'],
        'R1': ['header decodes', 'byte order of the file is the one requested', 'header fields', 'Sqw.open re-opens the file', 'Sqw.open finds the byte order'],
        'R2': ['block table decodes', 'table size field', 'every block listed exactly once', 'order independent of the builder calls',
               'extents are contiguous from the end of the table', 'declared block types', 'last extent ends at end-of-file', 'package reader sees the same table'],
        'R3': ['pixel block holds 9 rows x N pixels', 'histogram block holds zeros of the declared shape', 'data_block decodes within its extent',
               'pix_data_block decodes within its extent', 'dnd_data_block decodes within its extent', 'package reader decodes every block'],
    }
    where = {'R0': loc(cfi), 'R1': where_of(repo, BUILD, '_write_file_header', 'SqwBuilder.create'), 'R2': where_of(repo, BUILD, 'SqwBuilder._serialize_block_allocation_table', 'SqwBuilder.create'), 'R3': loc(cfi)}
    for rule, rr in (('R0', r0), ('R1', r1), ('R2', r2), ('R3', r3)):
        for inst in instances[rule]:
            f = fails[rule].get(inst)
            rr.check(f is None, inst, where[rule], f or {'configurations': n}, key=inst)
        for extra in fails[rule]:
            if extra not in instances[rule]:
                rr.fail(extra, where[rule], fails[rule][extra], key=extra)
        for _ in range(n - len(instances[rule])):
            rr.ok('configuration')
    run.extra['configurations'] = n

    # ---- R4: the array writer behind the pixel and histogram blocks -------------------------------------------------
    # declared block sizes are computed from shapes; the bytes come from LowLevelSqw.write_array.  It must write every
    # element exactly once, in order, whatever the size of the array (0 elements .. more than 1 MiB) and the target.
    # ---- R5: a file does not depend on the files written before it ---------------------------------------------------------
    r5 = run.rule('R5', 'a file does not depend on the files written before it: two-file histories in one world (module-level tables and '
                        'caches persist), same byte order and block set, other pixel counts / run counts / title lengths: header, block table '
                        '(positions and sizes) and length of the second file are those a fresh interpreter writes', 4)
    hist = [((FULL, 'little', 5, 2, 1, 'memory', 'a title'), (FULL, 'little', 12, 5, 2, 'memory', 'a much longer title than the first one')),
            ((FULL, 'little', 12, 5, 2, 'memory', 'a much longer title than the first one'), (FULL, 'little', 5, 2, 1, 'memory', 'a title')),
            ((('P', 'D'), 'big', 3, 2, 1, 'memory', 't'), (('P', 'D'), 'big', 10, 1, 3, 'memory', 'tt')),
            ((FULL, 'big', 4, 3, 1, 'file', 'a title'), (FULL, 'big', 9, 3, 1, 'file', 'another'))]

    def shape_of(wr_):
        if wr_.outcome[0] != 'return' or wr_.file is None:
            return ('outcome', str(wr_.outcome)[:120])
        u_ = wr_.file.units
        try:
            c_ = sqwfmt.Cursor(u_, sqwfmt.detect_order(u_))
            return ('file', sqwfmt.file_header(c_), [(b['name'], b['block_type'], b['position'], b['size']) for b in sqwfmt.block_table(c_)['blocks']], len(u_))
        except sqwfmt.FormatError as ex:
            return ('does not decode', str(ex)[:120])
    for first, second in hist:
        fresh_ = shape_of(build(repo, *second))
        w1 = build(repo, *first)
        w1.world.it.end_of_call()
        got_ = shape_of(build(repo, *second, world=w1.world))
        r5.check(got_ == fresh_, f'{second[1]}-endian file of {second[2]} pixels / {second[4]} run(s) after one of {first[2]} / {first[4]}', loc(cfi),
                 {'fresh': str(fresh_)[:300], 'after_the_first_file': str(got_)[:300]}, key=f'history:{"".join(second[0])}:{second[1]}:{second[5]}')

    r4 = run.rule('R4', 'write_array writes exactly the elements of the array, in order: empty, small and larger than 1 MiB, in memory and to a file, '
                        'both byte orders', 8)
    from sa.absio import AbsFile, Elem, NdArr
    from sa.sqwio import set_shape
    from .sqw_af import World
    LL = 'io.sqw._low_level_io'
    wfi = repo.func(LL, 'LowLevelSqw.write_array')
    sizes = (0, 5, (1 << 17) + 3) if tier == 'quick' else (0, 1, 5, 4096, (1 << 17) + 3, (1 << 18) + 1)
    for n_el, in_memory, bo in itertools.product(sizes, (True, False), ('little', 'big')):
        if n_el > 100 and (not in_memory or bo == 'big') and tier == 'quick':
            continue
        w = World(repo)
        target = AbsFile(in_memory)
        kc, ll = w.call_construct(repo.cls(LL, 'LowLevelSqw'), [target], {'path': None, 'byteorder': w.enum('io.sqw._bytes', 'Byteorder', bo)})
        if kc != 'return':
            raise AnalysisError(f'LowLevelSqw(file, path=None, byteorder={bo}) cannot be constructed: {ll}')
        base = w.sv('arr', None, (n_el,), dtype='float64', dims=['x'])
        raw = w.model.raw(w.it, base, None, 'values')
        set_shape(raw, (n_el,), ['x'])
        arr = NdArr.whole(raw, (n_el,), 'float64')
        kind, res = w.call(wfi, [arr], bound=ll)
        inst = f'{n_el} float64 elements, {"BytesIO" if in_memory else "file"}, {bo}'
        problem = None
        if kind != 'return':
            problem = f'{kind}: {res}'[:200]
        else:
            units = target.units
            order = '<' if bo == 'little' else '>'
            if len(units) != 8 * n_el:
                problem = f'{len(units)} bytes written for {n_el} elements ({8 * n_el} bytes)'
            else:
                for i in range(n_el):
                    u = units[8 * i:8 * i + 8]
                    cell = u[0][0] if not isinstance(u[0], int) else None
                    if cell is None or any(isinstance(x, int) or x[0] is not cell or x[1] != k for k, x in enumerate(u)) \
                            or not (isinstance(cell.value, Elem) and cell.value.idx == i) or cell.order != order or cell.dtype != 'float64':
                        problem = f'bytes {8 * i}..{8 * i + 7} do not hold element {i} as a {order}float64: {cell!r}'
                        break
        r4.check(problem is None, inst, loc(wfi), {'problem': problem}, key=f'write-array:{"large" if n_el > 100 else "small"}')
    return run
