"""C08 — Q-vector and hkl conversions satisfy their defining algebra."""

from __future__ import annotations

from sa import term as T
from sa.kernel import run_kernel, specs_for
from sa.load import AnalysisError, Repo, loc
from sa.report import Run
from sa.term import Mat, Rat, Vec
from spec import formulas
from spec.formulas import S, V

from .common import eq_term, events, returns, show, term_of


def single(repo, name):
    fi = repo.func('conversion.tof', name)
    outs = returns(run_kernel(repo, fi, specs_for(fi)))
    if not outs:
        raise AnalysisError(f'{fi.fq}: no returning path')
    return fi, outs


def run(tier: str) -> Run:
    run = Run('C08', tier, 'other',
              'The vector kernels are interpreted to linear forms over vector atoms and to '
              'non-commutative matrix words.  Decided: the components of Q are the x,y,z fields of '
              '(2 pi/lambda)(e_i - e_f) (so the vector is independent of the beam lengths: only unit '
              'vectors occur; and rotates with the beams: it is a linear form in them); packing and '
              'unpacking are inverse permutations; hkl = inv(R UB) Q / (2 pi) as a matrix word, so '
              '2 pi R UB hkl reduces to Q by word cancellation; UB = U B in that order.  Conditioning '
              '(accuracy for cond(B) up to 1e6) is a runtime quantity and not decided.')
    repo = Repo()
    run.analysed = {'modules': ['conversion.tof'], 'digest': repo.digest.hexdigest()}
    run.trusted = ['sa/scipp_model.py', 'sa/term.py', 'spec/formulas.py']
    r1 = run.rule('R1', 'Qx,Qy,Qz are the fields of (2 pi/lambda)(e_i - e_f)', 3)
    r2 = run.rule('R2', 'pack / unpack are order-preserving and inverse to each other', 4)
    r3 = run.rule('R3', 'hkl = inv(R*UB)*Q/(2 pi): 2 pi R UB hkl == Q; UB == U*B', 3)
    r4 = run.rule('R4', 'Q depends on the beams only through unit vectors (no beam length survives rescaling)', 2)

    # R7 first: the algebra below is decided on unit- and dimension-carrying variables.  A kernel that takes the bare numbers
    # out of an operand and computes on them with numpy leaves that algebra (axis order, broadcasting and units are then the
    # kernel's own business) and cannot be reduced to a normal form: reported as such, and not examined further.
    r7 = run.rule('R7', 'the kernels compute on variables, not on bare numbers taken out of their operands', 5)
    KERNELS = ('Q_elements_from_wavelength', 'Q_vec_from_Q_elements', 'hkl_vec_from_Q_vec', 'hkl_elements_from_hkl_vec', 'ub_matrix_from_u_and_b')
    opaque = set()
    for name in KERNELS:
        kfi = repo.func('conversion.tof', name)
        raws = []
        for o in run_kernel(repo, kfi, specs_for(kfi)):
            for e in events(o, 'raw-value'):
                raws.append({'where': e.where, 'unit': e.detail.get('unit')})
        if raws:
            opaque.add(name)
        r7.check(not raws, name, loc(kfi), {'raw_number_uses': list({str(x): x for x in raws}.values())[:3]}, key=f'raw:{name}')
    if opaque:
        run.extra['not_examined_further'] = sorted(opaque)
        return run

    fi, outs = single(repo, 'Q_elements_from_wavelength')
    want = (formulas.unit_vec('incident_beam') - formulas.unit_vec('scattered_beam')) * (2 * formulas.pi() / S('wavelength'))
    comps = {}
    for o in outs:
        if not isinstance(o.value, dict):
            raise AnalysisError('Q_elements_from_wavelength does not return a dict')
        for key, c in (('Qx', 'x'), ('Qy', 'y'), ('Qz', 'z')):
            if key not in o.value:
                r1.fail(key, loc(fi), 'missing key', key=key)
                continue
            got = term_of(o.value[key], fi)
            comps[key] = got
            w = T.comp(want, c)
            r1.check(eq_term(got, w), key, loc(fi), {'computed': T.show(got), 'definition': T.show(w)}, key=key)
    # R4 scale invariance
    k = S('k_scale')
    for pname in ('incident_beam', 'scattered_beam'):
        a = formulas.param_atom(pname)
        ok = all(eq_term(t.subst({a.id: V(pname) * k}), t) for t in comps.values()) and len(comps) == 3
        r4.check(ok, f'scale({pname})', loc(fi), {'components': {k_: T.show(v) for k_, v in comps.items()}}, key=f'scale:{pname}')

    # R5 dtype: Q is a float quantity for every wavelength dtype
    r5 = run.rule('R5', 'Q components are float64 for float64/float32/int64 wavelengths; no float-to-int cast', 3)
    for dt in ('float64', 'float32', 'int64'):
        outs_d = run_kernel(repo, fi, specs_for(fi), dtypes={'wavelength': dt})
        probs = []
        for o in outs_d:
            if o.kind == 'raise':
                probs.append({'raises': o.exc_type, 'where': o.where})
                continue
            for key, v in o.value.items():
                if v.dtype != 'float64':
                    probs.append({'key': key, 'dtype': v.dtype})
            for e in events(o, 'narrowing-cast', 'int-unit-conversion'):
                probs.append({'event': e.kind, **e.detail, 'where': e.where})
        r5.check(not probs, f'Q_elements_from_wavelength[wavelength={dt}]', loc(fi), {'problems': probs[:3]},
                 key='Q_elements:dtype')

    # R2 pack
    fi, outs = single(repo, 'Q_vec_from_Q_elements')
    for o in outs:
        got = term_of(o.value, fi)
        ok = isinstance(got, Vec) and all(eq_term(T.comp(got, c), S(n, positive=False)) for c, n in zip('xyz', ('Qx', 'Qy', 'Qz'), strict=True))
        r2.check(ok, 'Q_vec_from_Q_elements', loc(fi), {'computed': T.show(got), 'expected': 'vector with fields (Qx, Qy, Qz) in this order'}, key='pack')
        break
    fi, outs = single(repo, 'hkl_elements_from_hkl_vec')
    for o in outs:
        ok = isinstance(o.value, dict) and set(o.value) == {'h', 'k', 'l'}
        det = {}
        if ok:
            for key, c in zip('hkl', 'xyz', strict=True):
                got = term_of(o.value[key], fi)
                det[key] = T.show(got)
                ok = ok and eq_term(got, T.comp(V('hkl_vec'), c))
        r2.check(ok, 'hkl_elements_from_hkl_vec', loc(fi), det, key='unpack')
        break
    # composition: pack(Q_elements(...)) is the vector itself
    fiq, outs_q = single(repo, 'Q_elements_from_wavelength')
    o = outs_q[0]
    packed = T.as_vectors(*[term_of(o.value[k_], fiq) for k_ in ('Qx', 'Qy', 'Qz')])
    want = (formulas.unit_vec('incident_beam') - formulas.unit_vec('scattered_beam')) * (2 * formulas.pi() / S('wavelength'))
    r2.check(eq_term(packed, want), 'pack(Q_elements) == Q vector', loc(fiq), {'packed': T.show(packed)}, key='pack-compose')
    # unpack(pack) identity
    vq = T.as_vectors(S('Qx', False), S('Qy', False), S('Qz', False))
    r2.check(all(eq_term(T.comp(vq, c), S(n, False)) for c, n in zip('xyz', ('Qx', 'Qy', 'Qz'), strict=True)),
             'fields(as_vectors(a,b,c)) == (a,b,c)', 'sa/term.py', {}, key='model-inverse')

    # R3
    fi, outs = single(repo, 'hkl_vec_from_Q_vec')
    got = term_of(outs[0].value, fi)
    R, UB, Q = Mat.sym('sample_rotation'), Mat.sym('ub_matrix'), V('Q_vec')
    want = (R * UB).inv() * Q / (2 * formulas.pi())
    r3.check(eq_term(got, want), 'hkl_vec_from_Q_vec', loc(fi), {'computed': T.show(got), 'documented': T.show(want)}, key='hkl')
    back = (R * UB * (2 * formulas.pi())) * got if isinstance(got, Vec) else None
    r3.check(back is not None and eq_term(back, Q), '2 pi R UB hkl == Q', loc(fi), {'product': T.show(back) if back is not None else None}, key='hkl-inverse')
    fi, outs = single(repo, 'ub_matrix_from_u_and_b')
    got = term_of(outs[0].value, fi)
    want = Mat.sym('u_matrix') * Mat.sym('b_matrix')
    r3.check(eq_term(got, want), 'ub_matrix_from_u_and_b', loc(fi), {'computed': T.show(got), 'documented': T.show(want)}, key='ub')

    # R6 totality: the conversions hold "for every non-singular UB" and every beam / wavelength: no kernel may refuse
    # a valid symbolic input (Q_vec_from_Q_elements documents one refusal: components of different shape)
    r6 = run.rule('R6', 'no kernel refuses valid input (documented refusal: Q components of different shape)', 5)
    allowed = {'Q_vec_from_Q_elements': {'DimensionError'}}
    for name in ('Q_elements_from_wavelength', 'Q_vec_from_Q_elements', 'hkl_vec_from_Q_vec', 'hkl_elements_from_hkl_vec', 'ub_matrix_from_u_and_b'):
        kfi = repo.func('conversion.tof', name)
        all_outs = run_kernel(repo, kfi, specs_for(kfi))
        bad = [(o.exc_type, o.where) for o in all_outs if o.kind == 'raise' and o.exc_type not in allowed.get(name, set())]
        r6.check(not bad and any(o.kind == 'return' for o in all_outs), name, loc(kfi), {'refusals': bad[:3]}, key=f'total:{name}')
    # the kernels answer from their arguments alone: no module-level state is written (a cache of the last inverse, a memo of a
    # constant, ...), so that R or UB updated in place between two calls is seen by the second call
    r8 = run.rule('R8', 'the Q / hkl kernels answer from their arguments alone: after any other kernel call a kernel returns what it returns in a '
                        'fresh interpreter (two-call histories interpreted in one world); no memoised result is handed out', 5)
    from .common import history_free, kernel_histories
    kfis = [repo.func('conversion.tof', n) for n in KERNELS]
    history_free(repo, kfis, r8, histories=kernel_histories(repo, kfis))
    return run
