"""C18 — cylinder absorption: path lengths, quadrature and transmission are geometric."""

from __future__ import annotations

import ast
import math
from fractions import Fraction as F

from sa import term as T
from sa.effects import Effects
from sa.interp import Interp, SObj, SVar
from sa.kernel import P, make_param, run_kernel
from sa.load import AnalysisError, Repo, loc
from sa.report import Run
from sa.scipp_model import Model
from sa.term import Rat, Vec
from sa.units import Unit
from sa.witness import WitnessInterp, WitnessModel, items_of, real_type, sym_scalar

from .common import callee_receiving, private_helper, eq_term, events, history_free, returns, show

MOD = 'absorption.cylinder'
FROZEN_DEGREE = {'disk12': (7, 1e-13), 'disk55': (17, 5e-7), 'disk256_cheb': (31, 1e-6)}




def S(n, pos=False):
    return Rat.sym(n, positive=pos)


def V(n):
    return Vec.sym(n)


def cyl_bound(repo):
    cls = repo.cls(MOD, 'Cylinder')

    def bound(it):
        return SObj(cls, {
            'symmetry_line': make_param(it, 'a', P(kind='vector', dim='ONE', dtype='vector3', unit=Unit())),
            'center_of_base': make_param(it, 'base', P(kind='vector', dim='L', dtype='vector3', unit=Unit.param('len'))),
            'radius': make_param(it, 'radius', P(dim='L', unit=Unit.param('len'))),
            'height': make_param(it, 'height', P(dim='L', unit=Unit.param('len')))})
    return bound


def disk_moment(a: int, b: int) -> float:
    """Integral of x^a y^b over the unit disk."""
    if a % 2 or b % 2:
        return 0.0
    return 2.0 * math.gamma((a + 1) / 2) * math.gamma((b + 1) / 2) / math.gamma((a + b) / 2 + 1) / (a + b + 2)


def vmin(x, y):
    return T.fn_where(T.fn_cmp('<=', x, y), x, y)


def vmax(x, y):
    return T.fn_where(T.fn_cmp('>=', x, y), x, y)


def max0(x):
    return vmax(x, Rat.const(0))


def ref_slab(a_, b_, h_, n_, scale):
    """Reference: the line t*n meets the slab {x: 0 <= (x - b).a <= h}; returns (meets, t_low, t_high) as terms."""
    nd, bd = T.dot(n_, a_), T.dot(b_, a_)
    inplane = T.fn_bool('and', T.fn_cmp('<=', bd, Rat.const(0)), T.fn_cmp('>=', bd, -h_))
    par = T.fn_cmp('==', T.fn_abs(nd), Rat.const(0))
    t0 = bd / nd
    t1 = t0 + h_ / nd
    inf = Rat.const(float('inf')) * scale
    return (T.fn_bool('or', inplane, Rat.fn('not', par)), T.fn_where(par, -inf, vmin(t0, t1)), T.fn_where(par, inf, vmax(t1, t0)))


def ref_cylinder(a_, b_, r_, n_, scale):
    """Reference: the line t*n meets the infinite cylinder of radius r around the axis a through b."""
    nxa = T.cross(n_, a_)
    nsq = T.dot(nxa, nxa)
    par = T.fn_cmp('==', nsq, Rat.const(0))
    s2 = nsq * r_**2 - T.dot(b_, nxa) ** 2
    sq = T.sqrt(s2)
    m = T.dot(nxa, T.cross(b_, a_))
    inter = T.fn_cmp('>=', s2, Rat.const(0))
    inside = T.fn_cmp('<=', T.norm(b_ - a_ * T.dot(b_, a_)), r_)
    inf = Rat.const(float('inf')) * scale
    return (T.fn_where(par, inside, inter), T.fn_where(par, -inf, (m - sq) / nsq), T.fn_where(par, inf, (m + sq) / nsq))


def ref_interval(a0, a1, b0, b1):
    left, right = vmax(a0, b0), vmin(a1, b1)
    return max0(max0(right) - max0(left))


def as_triple(it, v):
    """A 3-tuple result, also when it is handed out as a NamedTuple / dataclass of three variables."""
    if isinstance(v, SObj):
        try:
            v = tuple(it.iterate(v, None)) if it.is_namedtuple(v.cls) else tuple(it.getattr(v, n, None) for n, _ in v.cls.dataclass_fields())
        except Exception:  # noqa: BLE001
            return None
    if isinstance(v, list):
        v = tuple(v)
    if isinstance(v, tuple) and len(v) == 3 and all(isinstance(x, SVar) and x.term is not None for x in v):
        return v
    return None


def params_of(fi):
    return [a.arg for a in fi.node.args.args + fi.node.args.kwonlyargs]


def call(wi, fi, args, kwargs=None, bound=None):
    from sa.interp import RaiseSignal
    try:
        return 'return', wi.call_function(fi, list(args), dict(kwargs or {}), bound=bound)
    except RaiseSignal as r:
        return 'raise', r.exc_type


def witness_cylinder(wi, wm, repo, radius=F(1), height=F(2)):
    cls = repo.cls(MOD, 'Cylinder')
    a = make_param(wi, 'a', P(kind='vector', dim='ONE', dtype='vector3', unit=Unit()))
    base = make_param(wi, 'base', P(kind='vector', dim='L', dtype='vector3', unit=Unit.named('m')))
    for v in (a, base):
        v.members['dims'] = []
    return SObj(cls, {'symmetry_line': a, 'center_of_base': base, 'radius': sym_scalar(wi, wm, 'radius', Unit.named('m'), radius, positive=True),
                      'height': sym_scalar(wi, wm, 'height', Unit.named('m'), height, positive=True)})


class ShapeStub:
    """A sample shape that hands out two symbolic quadrature points and records the rays it is asked about."""

    def __init__(self, wi, wm):
        self.wi, self.wm = wi, wm
        self.calls = []
        pts = []
        for i in range(2):
            p_ = make_param(wi, f'pt{i}', P(kind='vector', dim='L', dtype='vector3', unit=Unit.named('mm')))
            p_.members['dims'] = []
            pts.append(p_)
        self.points = wm.array(wi, pts, 'quad')
        self.weights = wm.array(wi, [sym_scalar(wi, wm, f'w{i}', Unit({'mm': 3}), 1 + i, positive=True) for i in range(2)], 'quad')
        self.volume = sym_scalar(wi, wm, 'volume', Unit({'mm': 3}), 7, positive=True)
        self.center = pts[0]

    def quadrature(self, kind):
        return self.points, self.weights

    def beam_intersection(self, start_point, direction):
        k = len(self.calls)
        self.calls.append((start_point, direction))
        return self.wm.array(self.wi, [sym_scalar(self.wi, self.wm, f'Lcall{k}_{i}', Unit.named('mm'), 1 + i + k, positive=True) for i in range(2)], 'quad')


class MaterialStub:
    def __init__(self, wi, wm):
        self.wi, self.wm = wi, wm

    def attenuation_coefficient(self, wavelength):
        name = T.show(wavelength.term)
        return sym_scalar(self.wi, self.wm, f'mu_{name}', Unit({'mm': -1}), 2, positive=True)


# pure numpy functions of literal data: folded with numpy itself
_FOLDABLE = {'repeat', 'tile', 'array', 'asarray', 'ones', 'zeros', 'cos', 'sin', 'sqrt', 'outer', 'multiply.outer', 'multiply', 'ravel',
             'concatenate', 'kron', 'full', 'arange', 'linspace', 'reshape', 'broadcast_to', 'meshgrid', 'stack', 'hstack', 'square',
             'add', 'subtract', 'divide', 'power', 'divmod', 'floor_divide', 'mod', 'remainder', 'ones_like', 'zeros_like', 'ascontiguousarray', 'copy', 'einsum', 'prod'}


class FoldModel(WitnessModel):
    """Constant folding of the numeric part of the reference rule with numpy itself."""

    def call_ext(self, interp, path, args, kwargs, node):
        import numpy as np
        if path in ('numpy.polynomial.chebyshev.chebgauss', 'numpy.polynomial.legendre.leggauss') and len(args) == 1 and isinstance(args[0], int):
            fn = np.polynomial.chebyshev.chebgauss if 'chebgauss' in path else np.polynomial.legendre.leggauss
            x, w = fn(args[0])
            return (x, w)
        if path.startswith('numpy.') and path[len('numpy.'):] in _FOLDABLE \
                and all(isinstance(a, list | tuple | int | float | np.ndarray | np.generic) for a in args):
            fn = np
            for part in path.split('.')[1:]:
                fn = getattr(fn, part)
            return fn(*args, **{k: real_type(v) for k, v in kwargs.items()})
        return super().call_ext(interp, path, args, kwargs, node)

    def sc_array(self, interp, args, kwargs, node):
        import numpy as np
        vals = kwargs.get('values')
        if isinstance(vals, np.ndarray | list) and not isinstance(vals, SVar):
            return NumArr(np.asarray(vals, dtype=float), tuple(kwargs.get('dims') or ()))
        return super().sc_array(interp, args, kwargs, node)

    def _builtin(self, interp, name, args, kwargs, node):
        import numpy as np
        if name == 'sum' and args and isinstance(args[0], np.ndarray):
            return float(np.sum(args[0]))
        if name == 'len' and args and isinstance(args[0], np.ndarray):
            return len(args[0])
        return super()._builtin(interp, name, args, kwargs, node)


class NumArr:
    def __init__(self, a, dims):
        self.a, self.dims = a, dims


def quadrature_histories(repo, sfi):
    """Two-call histories of the rule selection in ONE interpreter (module-level tables and lru_cache stores persist): every
    (kind, height/radius) after every other one; the second rule must be the one a fresh interpreter hands out.
    -> (problems per fq, number of histories)"""
    import numpy as np
    # (three of the requests need an axial rule of the same length, 11 points, from two families: a table keyed by the length
    # alone hands one family's rule to the other)
    configs = [('cheap', F(11, 5)), ('medium', F(11, 7)), ('expensive', F(1)), ('cheap', F(1, 10)), ('medium', F(4)), ('expensive', F(4))]

    def request(wi, wm, kind, ratio):
        cyl = witness_cylinder(wi, wm, repo, radius=F(1), height=ratio)
        k_, quad = call(wi, sfi, [kind], bound=cyl)
        if k_ != 'return' or not isinstance(quad, dict):
            return (k_, repr(quad))
        return tuple((n, quad[n].a.copy() if isinstance(quad.get(n), NumArr) else repr(quad.get(n))) for n in sorted(quad))

    def same(a, b):
        if len(a) != len(b):
            return False
        for x, y in zip(a, b, strict=True):
            if isinstance(x, tuple) and isinstance(y, tuple) and len(x) == 2 and len(y) == 2:
                if x[0] != y[0]:
                    return False
                if isinstance(x[1], np.ndarray) and isinstance(y[1], np.ndarray):
                    if x[1].shape != y[1].shape or not np.array_equal(x[1], y[1]):
                        return False
                elif isinstance(x[1], np.ndarray) or isinstance(y[1], np.ndarray) or x[1] != y[1]:
                    return False
            elif x != y:
                return False
        return True

    fresh = {}
    for cfg in configs:
        T.reset()
        wm = FoldModel()
        wi = WitnessInterp(repo, wm)
        fresh[cfg] = request(wi, wm, *cfg)
    problems: dict = {}
    n = 0
    for first in configs:
        for second in configs:
            T.reset()
            wm = FoldModel()
            wi = WitnessInterp(repo, wm)
            got1 = request(wi, wm, *first)
            # the caller of the first request may do with its arrays what it likes
            for item in got1:
                if isinstance(item, tuple) and len(item) == 2 and isinstance(item[1], np.ndarray):
                    item[1][...] = -1.0
            got = request(wi, wm, *second)
            n += 1
            if not same(got, fresh[second]):
                problems.setdefault(sfi.fq, []).append({'history': [f'{sfi.qualname}{first}', f'{sfi.qualname}{second}'],
                                                         'note': 'the rule of the second request is not the rule a fresh interpreter hands out'})
    return problems, n


def transmission_histories(repo, cfi):
    """Two compute_transmission_map calls in ONE interpreter (module-level state persists), other wavelengths the second time (and
    the same again): the second map must be the one a fresh interpreter computes.  -> (problems per fq, number of histories)"""
    def request(wi, wm, tag, first_value):
        shape = ShapeStub(wi, wm)
        material = MaterialStub(wi, wm)
        beam = make_param(wi, 'beam', P(kind='vector', dim='ONE', dtype='vector3', unit=Unit()))
        beam.members['dims'] = []
        det = make_param(wi, 'det', P(kind='vector', dim='L', dtype='vector3', unit=Unit.named('m')))
        det.members['dims'] = []
        wav = wm.array(wi, [sym_scalar(wi, wm, f'lam{tag}{j}', Unit.named('angstrom'), first_value + j, positive=True) for j in range(2)], 'wavelength')
        kind_, res = call(wi, cfi, [], {'sample_shape': shape, 'sample_material': material, 'beam_direction': beam, 'wavelength': wav,
                                        'detector_position': det, 'quadrature_kind': 'cheap'})
        if kind_ != 'return' or not isinstance(res, SVar) or items_of(res) is None:
            return (kind_, repr(res)[:80])
        return ('return', tuple(T.show(x.term) if x.term is not None else None for x in items_of(res)))
    problems: dict = {}
    n = 0
    for first, second in ((('A', 1), ('B', 3)), (('B', 3), ('A', 1)), (('A', 1), ('A', 1))):
        T.reset()
        wm = WitnessModel()
        fresh = request(WitnessInterp(repo, wm), wm, *second)
        wm2 = WitnessModel()
        wi2 = WitnessInterp(repo, wm2)
        request(wi2, wm2, *first)
        wi2.end_of_call()
        got = request(wi2, wm2, *second)
        n += 1
        if got != fresh:
            problems.setdefault(cfi.fq, []).append({'history': [f'wavelengths {first}', f'wavelengths {second}'], 'fresh': str(fresh)[:200], 'after_the_first': str(got)[:200]})
    return problems, n


def orientation_histories(repo, qfi, sfi):
    """Two Cylinder.quadrature calls in ONE interpreter (module-level tables and caches persist) for two cylinders whose axes differ
    in the sign of one component, in every combination of components (the axes of such a pair share e_z x axis, or its length, or
    the angle to z): the points of the second cylinder must be those a fresh interpreter hands out.  The reference rule is replaced
    by two symbolic points.  -> (bad histories, number of histories)"""
    from sa.interp import RaiseSignal

    def request(wi, wm, signs, tag):
        comps = [sym_scalar(wi, wm, n_, Unit(), v_) for n_, v_ in (('ax', F(2, 7)), ('ay', F(3, 7)), ('az', F(6, 7)))]  # (no two components of equal size: no accidental hit)
        a = SVar(T.as_vectors(*[c.term * s_ for c, s_ in zip(comps, signs, strict=True)]), Unit(), 'vector3')
        a.members['dims'] = []
        wi.track(a)
        base = make_param(wi, 'base', P(kind='vector', dim='L', dtype='vector3', unit=Unit.named('m')))
        base.members['dims'] = []
        cyl = SObj(repo.cls(MOD, 'Cylinder'), {'symmetry_line': a, 'center_of_base': base, 'radius': sym_scalar(wi, wm, 'radius', Unit.named('m'), F(1), positive=True),
                                                'height': sym_scalar(wi, wm, 'height', Unit.named('m'), F(2), positive=True)})
        q = {k: wm.array(wi, [sym_scalar(wi, wm, f'q{k}{i}', Unit(), F(1, 3 + i)) for i in range(2)], 'quad') for k in ('x', 'y', 'z', 'weights')}
        wi.stubs[sfi.fq] = lambda interp, args, kwargs, bound, q=q: dict(q)
        try:
            r = wi.call_function(qfi, ['cheap'], {}, bound=cyl)
        except RaiseSignal as r_:
            return ('raise', r_.exc_type)
        if not (isinstance(r, tuple) and len(r) == 2):
            return ('return', repr(r)[:80])
        pts, wts = items_of(r[0]), items_of(r[1])
        if pts is None or wts is None:
            return ('return', 'no arrays')
        return ('return', tuple(T.show(p_.term) if p_.term is not None else None for p_ in pts), tuple(T.show(w_.term) if w_.term is not None else None for w_ in wts))
    variants = [(1, 1, 1), (1, 1, -1), (-1, 1, 1), (-1, 1, -1)]
    bad = []
    n = 0
    for first in variants:
        for second in variants:
            if first == second:
                continue
            T.reset()
            wm = WitnessModel()
            fresh = request(WitnessInterp(repo, wm), wm, second, '')
            wm2 = WitnessModel()
            wi2 = WitnessInterp(repo, wm2)
            request(wi2, wm2, first, '')
            wi2.end_of_call()
            got = request(wi2, wm2, second, '')
            n += 1
            if got != fresh:
                bad.append({'history': [f'axis (2/7, 3/7, 6/7) * {first}', f'axis (2/7, 3/7, 6/7) * {second}'], 'fresh': str(fresh)[:160], 'after_the_first': str(got)[:160]})
    return bad, n


def fold_rule(repo, sfi, kind, ratio):
    """Problems of the reference rule of the unit cylinder (radius 1, z in [-1, 1]) selected for `kind`."""
    import numpy as np
    T.reset()
    wm = FoldModel()
    wi = WitnessInterp(repo, wm)
    cyl = witness_cylinder(wi, wm, repo, radius=F(1), height=ratio)
    k_, quad = call(wi, sfi, [kind], bound=cyl)
    if k_ != 'return':
        return [f'selecting the reference rule for {kind!r} raises {quad}'], {}
    if not isinstance(quad, dict) or not all(isinstance(quad.get(n), NumArr) for n in ('x', 'y', 'z', 'weights')):
        raise AnalysisError(f'{sfi.fq}({kind!r}): the numeric part could not be folded ({quad!r})'[:300])
    x, y, z, w = (quad[n].a.copy() for n in ('x', 'y', 'z', 'weights'))
    probs = []
    # a second request in the same interpreter (same module state) must give the same rule
    k2, quad2 = call(wi, sfi, [kind], bound=cyl)
    if k2 != 'return' or not isinstance(quad2, dict) or not all(isinstance(quad2.get(n), NumArr) and quad2[n].a.shape == quad[n].a.shape
                                                                and np.array_equal(quad2[n].a, a0) for n, a0 in zip(('x', 'y', 'z', 'weights'), (x, y, z, w), strict=True)):
        probs.append('the rule handed out on a second request differs from the first (state kept between calls)')
    if not (len(x) == len(y) == len(z) == len(w)) or len(w) == 0:
        return ['arrays of different length'], {}
    if w.min() <= 0:
        probs.append(f'non-positive weight {w.min()}')
    if (x * x + y * y).max() > 1 + 1e-12 or np.abs(z).max() > 1 + 1e-12:
        probs.append('point outside the unit cylinder')
    if abs(w.sum() - 2 * math.pi) > 4e-6:  # the tabulated disk rules carry ~7 digits
        probs.append(f'weights sum to {w.sum()}, volume of the unit cylinder is {2 * math.pi}')
    n_line = len(set(np.round(z, 14)))
    disk_deg, tol = {'cheap': FROZEN_DEGREE['disk12'], 'medium': FROZEN_DEGREE['disk55'], 'expensive': FROZEN_DEGREE['disk256_cheb']}[kind]
    # along the axis: Gauss-Legendre (cheap) is exact to degree 2n-1; the weighted Chebyshev rule of the other kinds is exact to degree 1
    # and converges like 1/n^2 above (0.58/n^2 for z^2 at n = 7 .. 35; without its sqrt(1 - z^2) weights the z^2 moment is off by 1/3)
    line_deg = min(2 * n_line - 1, 9) if kind == 'cheap' else 4
    worst = 0.0
    worst_excess = 0.0
    for d in range(min(disk_deg, 7) + 1):
        for a_ in range(d + 1):
            b_ = d - a_
            for c_ in range(line_deg + 1):
                got = float((w * x**a_ * y**b_ * z**c_).sum())
                want = disk_moment(a_, b_) * (2.0 / (c_ + 1) if c_ % 2 == 0 else 0.0)
                allowed = max(tol, 1e-12) * 4 + (math.pi / n_line ** 2 if (kind != 'cheap' and c_ >= 2) else 0.0)
                worst = max(worst, abs(got - want))
                worst_excess = max(worst_excess, abs(got - want) - allowed)
    if worst_excess > 0:
        probs.append(f'moment error {worst:.3g} (more than the rule of {n_line} axial points allows)')
    return probs, {'points': len(w), 'line_points': n_line, 'max_moment_error': worst}


def run(tier: str) -> Run:
    run = Run('C18', tier, 'other',
              'Decided: (R1) the rotation that carries the reference quadrature from the z axis to the '
              'cylinder axis uses an angle whose range is [0, pi] (atan2(|z x a|, z.a) or acos(z.a)); asin of the '
              'cross-product norm only reaches [0, pi/2] and is reported; (R2) the literal disk rules in '
              'quadratures.py (read as data) have positive weights summing to pi, nodes inside the unit disk and '
              'integrate all monomials up to a frozen degree; (R3) the product rule is assembled disk-major with '
              'matching repeat/tile, scaled by radius / height/2 / r^2 h/2 and translated to the centre '
              'base + a h/2; volume = pi r^2 h; (R4) transmission = sum w exp(-mu (L_in + L_out)) / volume with '
              'L_in along -beam_direction; (R5) the line/cylinder, line/slab and interval formulas equal their '
              'reference normal forms; (R6) no module-level state is written (no memoised rule arrays).  Accuracy '
              'of the quadrature on the actual integrand and tangent/parallel degeneracies are runtime numerics.')
    repo = Repo()
    run.analysed = {'modules': [MOD, 'absorption.base', 'absorption.quadratures', 'absorption.material'], 'digest': repo.digest.hexdigest()}
    run.trusted = ['sa/scipp_model.py', 'scipp.spatial.rotations_from_rotvecs semantics (rotation by |v| about v)']

    # ---- R1 ------------------------------------------------------------------
    r1 = run.rule('R1', 'rotation angle from the z axis to the cylinder axis ranges over [0, pi]', 1)
    fi = repo.func(MOD, 'Cylinder.quadrature')
    outs = run_kernel(repo, fi, {}, extra_args={'kind': 'cheap'}, bound=cyl_bound(repo))
    rots = [e for o in outs for e in o.events if e.kind == 'rotation-from-rotvec']
    if not rots:
        raise AnalysisError('Cylinder.quadrature: no rotation from a rotation vector found')
    ez, a = Vec.basis('z'), V('a')
    axis = T.cross(ez, a)
    un = T.norm(axis)
    accepted = [axis * (T.fn_atan2(un, T.dot(ez, a)) / un), axis * (T.FN_CTORS['acos'](T.dot(ez, a)) / un)]
    for e in rots[:1]:
        t = e.detail.get('term')
        ok = isinstance(t, Vec) and any(t.eq(w) for w in accepted)
        r1.check(ok, 'rotation vector', e.where, {'rotation_vector': e.detail['rotvec'], 'accepted': [T.show(w) for w in accepted],
                                                  'note': 'asin(|z x a|) lies in [0, pi/2]: wrong for axes with negative z component'},
                 key='rotation')

    # ---- R2 tables --------------------------------------------------------------------
    r2 = run.rule('R2', 'disk rules: weights > 0, sum = pi, nodes in the unit disk, exact monomial moments up to the frozen degree', 3)
    qmi = repo.module('absorption.quadratures')
    for name, (deg, tol) in FROZEN_DEGREE.items():
        if name not in qmi.assigns:
            raise AnalysisError(f'quadrature table {name} not found')
        tab = ast.literal_eval(qmi.assigns[name])
        x, y, w = tab['x'], tab['y'], tab['weights']
        probs = []
        if not (len(x) == len(y) == len(w)):
            probs.append('length mismatch')
        if min(w) <= 0:
            probs.append(f'non-positive weight {min(w)}')
        if max(xi * xi + yi * yi for xi, yi in zip(x, y, strict=False)) > 1.0:
            probs.append('node outside the unit disk')
        worst = 0.0
        for d in range(deg + 1):
            for p in range(d + 1):
                q = d - p
                got = sum(wi * xi**p * yi**q for wi, xi, yi in zip(w, x, y, strict=False))
                worst = max(worst, abs(got - disk_moment(p, q)))
        if worst > tol:
            probs.append(f'moment error {worst:.3g} > {tol}')
        r2.check(not probs, name, f'src/scippneutron/absorption/quadratures.py:{name}',
                 {'points': len(w), 'degree': deg, 'max_moment_error': worst, 'sum_w_minus_pi': sum(w) - math.pi, 'problems': probs}, key=name)

    # ---- R3 assembly ----------------------------------------------------------------------
    r3 = run.rule('R3', 'product rule assembly, scaling and translation; centre and volume', 5)
    # the reference rule of the unit cylinder is chosen by the callee of Cylinder.quadrature that receives `kind`
    select_fi = callee_receiving(repo, repo.func(MOD, 'Cylinder.quadrature'), 'kind')
    if select_fi is None:
        raise AnalysisError('Cylinder.quadrature hands its `kind` to no function of the package: the reference rule cannot be separated from its scaling')
    # a private helper: without it (or with another signature) the assembly is decided by the moments of the assembled rules
    pfi = private_helper(repo, MOD, '_cylinder_quadrature_from_product', ['disk_quadrature', 'line_quadrature'])
    if pfi is None:
        r3.ok('product rule assembly (no separate helper)', {'decided_by': 'moments of the assembled reference rules'})
    else:
        import numpy as np
        T.reset()
        fm = FoldModel()
        fwi = WitnessInterp(repo, fm)
        disk = {'weights': np.array([2.0, 3.0]), 'x': np.array([5.0, 7.0]), 'y': np.array([11.0, 13.0])}
        line = {'x': np.array([17.0, 19.0, 23.0]), 'weights': np.array([29.0, 31.0, 37.0])}
        kind_, v = call(fwi, pfi, [disk, line])
        ok = kind_ == 'return' and isinstance(v, dict)
        detail = {'outcome': kind_}
        if ok:
            want = {'weights': [dw * lw for dw in disk['weights'] for lw in line['weights']],
                    'x': [dx for dx in disk['x'] for _ in line['x']], 'y': [dy for dy in disk['y'] for _ in line['x']],
                    'z': [lx for _ in disk['x'] for lx in line['x']]}
            got = {k: [float(e) for e in v[k]] if isinstance(v.get(k), np.ndarray | list) else None for k in want}
            ok = all(got[k] == [float(e) for e in want[k]] for k in want)
            detail = {k: got[k] if got[k] is not None else repr(v.get(k)) for k in want}
        r3.check(ok, '_cylinder_quadrature_from_product', loc(pfi), detail, key='product')
    # scaling, rotation and translation of the reference rule: the rule itself is replaced by two symbolic points
    for axis_case in ('generic axis',):
        T.reset()
        wm = WitnessModel()
        wi = WitnessInterp(repo, wm)
        cyl = witness_cylinder(wi, wm, repo)
        q = {k: wm.array(wi, [sym_scalar(wi, wm, f'q{k}{i}', Unit(), F(1, 3 + i)) for i in range(2)], 'quad') for k in ('x', 'y', 'z', 'weights')}
        wi.stubs[select_fi.fq] = lambda interp, args, kwargs, bound, q=q: dict(q)
        outs = wi.run_all(lambda i, cyl=cyl: i.call_function(fi, ['cheap'], {}, bound=cyl))
        rets = [o for o in outs if o.kind == 'return']
        ok_any = False
        problems = []
        for o in rets:
            pts, wts = o.value if isinstance(o.value, tuple) and len(o.value) == 2 else (None, None)
            pi_, wi_ = items_of(pts), items_of(wts)
            if pi_ is None or wi_ is None or len(pi_) != 2 or len(wi_) != 2:
                problems.append('quadrature does not return (points, weights) arrays of the rule length')
                continue
            rotated = any(e.kind == 'rotation-from-rotvec' for e in o.events)
            # the rule is left un-rotated only for an axis along +-z: |e_z x a| below 1e-10 (an axis 1e-6 rad off z is rotated)
            guard = T.fn_cmp('>=', T.norm(T.cross(Vec.basis('z'), V('a'))), Rat.const(1e-10))
            forks = [(cn, tk) for cn, tk, wh_ in o.conditions]  # wherever the guard lives (the method or a helper)
            decided = [tk if getattr(cn, 'term', None) is not None and cn.term.eq(guard) else (not tk if getattr(cn, 'term', None) is not None and cn.term.eq(T.fn_not(guard)) else None)
                       for cn, tk in forks]
            if len(decided) != 1 or decided[0] is None or decided[0] != rotated:
                problems.append(f'rotation is {"applied" if rotated else "skipped"} under ' + ', '.join(
                    (T.show(cn.term) if getattr(cn, 'term', None) is not None else repr(cn)) + f' = {tk}' for cn, tk in forks) + f'; documented: rotate iff {T.show(guard)}')
            r_, h_ = S('radius', True), S('height', True)
            centre = V('base') + V('a') * h_ / 2
            for i in range(2):
                local = T.as_vectors(S(f'qx{i}') * r_, S(f'qy{i}') * r_, S(f'qz{i}') * h_ / 2)
                want_w = S(f'qweights{i}') * r_ ** 2 * h_ / 2
                got_p, got_w = pi_[i].term, wi_[i].term
                if not (isinstance(got_w, Rat) and got_w.eq(want_w)):
                    problems.append(f'weight {i}: {T.show(got_w) if got_w is not None else None} != {T.show(want_w)}')
                if rotated:
                    rot = next(e for e in o.events if e.kind == 'rotation-from-rotvec').detail['term']
                    want_p = T.Mat.of(T.atom('mfn', 'rot', (rot,))) * local + centre if isinstance(rot, Vec) else None
                else:
                    want_p = local + centre
                if not (isinstance(got_p, Vec) and want_p is not None and got_p.eq(want_p)):
                    problems.append(f'point {i} ({"rotated" if rotated else "axis along z"}): {T.show(got_p) if got_p is not None else None} != {T.show(want_p) if want_p is not None else None}')
            ok_any = True
        r3.check(ok_any and not problems, 'scaling and translation', loc(fi), {'problems': problems[:3], 'paths': len(rets)}, key='scaling')
    for prop, want_t in (('center', lambda: V('base') + V('a') * S('height', True) / 2),
                         ('volume', lambda: S('radius', True) ** 2 * S('height', True) * Rat.sym('pi', True))):
        pf = repo.func(MOD, f'Cylinder.{prop}')
        o = returns(run_kernel(repo, pf, {}, bound=cyl_bound(repo)))
        r3.check(len(o) == 1 and o[0].value.term is not None and eq_term(o[0].value.term, want_t()), prop, loc(pf),
                 {'computed': show(o[0].value) if o else None}, key=prop)
    sfi = select_fi
    for kind in ('cheap', 'medium', 'expensive'):
        for ratio in ((F(1, 10), F(1), F(4)) if tier != 'thorough' else (F(1, 100), F(1, 10), F(1), F(2), F(4), F(100))):
            probs, info = fold_rule(repo, sfi, kind, ratio)
            r3.check(not probs, f'reference rule [{kind}, height/radius={ratio}]', loc(sfi), {**info, 'problems': probs[:3]}, key=f'rule:{kind}')
    T.reset()
    wm = WitnessModel()
    wi = WitnessInterp(repo, wm)
    kindq, resq = call(wi, sfi, ['no such rule'], bound=witness_cylinder(wi, wm, repo))
    r3.check(kindq == 'raise', 'unknown rule name is refused', loc(sfi), {'outcome': (kindq, resq if kindq == 'raise' else None)}, key='rule:unknown')

    # ---- R4 transmission ---------------------------------------------------------------------
    r4 = run.rule('R4', 'transmission = sum w exp(-mu (L_in + L_out)) / volume, L_in along -beam_direction (decided on compute_transmission_map; helper decided where it exists)', 2)
    bmod = 'absorption.base'
    tfi = repo.module(bmod).functions.get('_transmission_fraction')  # private helper: decided where it exists with today's interface
    mat_cls, sp_cls = repo.cls('absorption.material', 'Material'), repo.cls('atoms', 'ScatteringParams')

    def targs(it):
        sp = SObj(sp_cls, {'total_scattering_cross_section': make_param(it, 'sigma_s', P(dim='AREA', unit=Unit.named('barn'))),
                           'absorption_cross_section': make_param(it, 'sigma_a', P(dim='AREA', unit=Unit.named('barn')))})
        mat = SObj(mat_cls, {'scattering_params': sp, 'effective_sample_number_density': make_param(it, 'n', P(dim='L^-3', unit=Unit({'angstrom': -3})))})
        return {'material': mat, 'distance_through_sample': make_param(it, 'L', P(dim='L')), 'wavelength': make_param(it, 'wavelength', P(dim='L'))}
    if tfi is not None and sorted(params_of(tfi)) == ['distance_through_sample', 'material', 'wavelength']:
        T.reset()
        it = Interp(repo, Model())
        outs = it.run_all(lambda i: i.call_function(tfi, [], targs(i)))
        ok = len(outs) == 1 and outs[0].kind == 'return' and outs[0].value.term is not None
        detail = {}
        if ok:
            mu = S('n', True) * (S('sigma_s', True) + S('sigma_a', True) * S('wavelength', True) / (Rat.const(1.7982) * Unit.named('angstrom').scale()))
            want = T.fn_exp(-mu * S('L', True))
            bad = [e.detail for e in events(outs[0], 'unit-conversion-incompatible')]
            ok = eq_term(outs[0].value.term, want) and not bad
            detail = {'computed': show(outs[0].value)[:200], 'unit_problems': bad}
        r4.check(ok, '_transmission_fraction', loc(tfi), detail, key='fraction')
    cfi = repo.func(bmod, 'compute_transmission_map')
    T.reset()
    wm = WitnessModel()
    wi = WitnessInterp(repo, wm)
    shape = ShapeStub(wi, wm)
    material = MaterialStub(wi, wm)
    beam = make_param(wi, 'beam', P(kind='vector', dim='ONE', dtype='vector3', unit=Unit()))
    beam.members['dims'] = []
    det = make_param(wi, 'det', P(kind='vector', dim='L', dtype='vector3', unit=Unit.named('m')))
    det.members['dims'] = []
    wav = wm.array(wi, [sym_scalar(wi, wm, f'lam{j}', Unit.named('angstrom'), 1 + j, positive=True) for j in range(2)], 'wavelength')
    kind_, res = call(wi, cfi, [], {'sample_shape': shape, 'sample_material': material, 'beam_direction': beam, 'wavelength': wav,
                                    'detector_position': det, 'quadrature_kind': 'cheap'})
    probs = []
    if kind_ != 'return' or not isinstance(res, SVar) or items_of(res) is None:
        probs.append(f'compute_transmission_map: {kind_} {res!r}'[:200])
    else:
        # geometry handed to the shape: L_in along -beam from every point, L_out towards the detector
        if len(shape.calls) != 2:
            probs.append(f'beam_intersection called {len(shape.calls)} times, expected 2 (in and out)')
        else:
            dirs = [d for _, d in shape.calls]
            starts = [p_ for p_, _ in shape.calls]
            neg_beam = [d for d in dirs if isinstance(d, SVar) and isinstance(d.term, Vec) and d.term.eq(-V('beam'))]
            out_dirs = [d for d in dirs if items_of(d) is not None]
            if len(neg_beam) != 1:
                probs.append('no path length is taken along -beam_direction')
            if len(out_dirs) != 1:
                probs.append('no path length is taken towards the detector')
            else:
                for i, d in enumerate(items_of(out_dirs[0])):
                    diff = V('det') - V(f'pt{i}')
                    want_d = diff * (1 / T.norm(diff))
                    if not (isinstance(d.term, Vec) and d.term.eq(want_d)):
                        probs.append(f'scatter direction {i} is {T.show(d.term) if d.term is not None else None}, expected the unit vector from the point to the detector')
            for st in starts:
                its = items_of(st)
                if its is None or not all(isinstance(x.term, Vec) and x.term.eq(V(f'pt{i}')) for i, x in enumerate(its)):
                    probs.append('path lengths do not start at the quadrature points')
        items = items_of(res)
        if len(items) != 2:
            probs.append(f'{len(items)} wavelength entries, expected 2')
        else:
            for j, it_ in enumerate(items):
                mu = S(f'mu_lam{j}', True)
                total = Rat.const(0)
                for i in range(2):
                    total = total + S(f'w{i}', True) * T.fn_exp(-mu * (S(f'Lcall0_{i}', True) + S(f'Lcall1_{i}', True)))
                want = total / S('volume', True)
                if not (isinstance(it_.term, Rat) and it_.term.eq(want)):
                    probs.append(f'transmission[{j}] = {T.show(it_.term)[:160] if it_.term is not None else None}, expected sum_i w_i exp(-mu (L_in_i + L_out_i)) / volume')
        coords = res.members.get('coords') or {}
        if set(coords) != {'detector_position', 'wavelength'}:
            probs.append(f'coords {sorted(coords)}')
    r4.check(not probs, 'weighted sum divided by the volume; L_in along -beam, L_out towards the detector', loc(cfi), {'problems': probs[:4]}, key='map')
    dfi = repo.module(bmod).functions.get('_single_scatter_distance_through_sample') or cfi
    r4.check(not any('beam' in p_ or 'detector' in p_ or 'start' in p_ for p_ in probs), 'L_in along -beam, L_out towards the detector', loc(dfi), {'problems': probs[:4]}, key='distance')

    # ---- R5 geometry formulas ---------------------------------------------------------------------
    r5 = run.rule('R5', 'Cylinder.beam_intersection equals the reference composition of the interval, slab and infinite-cylinder formulas (helpers decided where they exist)', 1)
    helpers = repo.module(MOD).functions
    # private helpers are decided where they exist with today's interface; the public method below is decided in any case
    pif = helpers.get('_positive_interval_intersection')
    if pif is not None and len(params_of(pif)) == 2:
        T.reset()
        it = Interp(repo, Model())

        def iargs(i):
            mk = lambda n: make_param(i, n, P(dim='L', positive=False, unit=Unit.param('len')))  # noqa: E731
            return [(mk('a0'), mk('a1')), (mk('b0'), mk('b1'))]
        outs = it.run_all(lambda i: i.call_function(pif, iargs(i), {}))
        ok = len(outs) == 1 and outs[0].kind == 'return' and isinstance(outs[0].value, SVar) and outs[0].value.term is not None
        if ok:
            ok = eq_term(outs[0].value.term, ref_interval(S('a0'), S('a1'), S('b0'), S('b1')))
        r5.check(ok, '_positive_interval_intersection', loc(pif), {'computed': show(outs[0].value)[:200] if outs and outs[0].kind == 'return' else None}, key='interval')

    vec1 = P(kind='vector', dim='ONE', dtype='vector3', unit=Unit())
    vecl = P(kind='vector', dim='L', dtype='vector3', unit=Unit.param('len'))
    slab = helpers.get('_line_slab_intersection')
    if slab is not None and params_of(slab) == ['a', 'b', 'h', 'n']:
        outs = returns(run_kernel(repo, slab, {'a': vec1, 'b': vecl, 'h': P(dim='L', unit=Unit.param('len')), 'n': vec1}))
        trip = as_triple(outs[0].interp, outs[0].value) if len(outs) == 1 else None
        ok, detail = trip is not None, {}
        if ok:
            want = ref_slab(V('a'), V('b'), S('h', True), V('n'), S('U:len', True))
            got = [x.term for x in trip]
            ok = all(eq_term(g, w) for g, w in zip(got, want, strict=True))
            detail = {'computed': [T.show(g)[:160] for g in got], 'expected': [T.show(w)[:160] for w in want]}
        r5.check(ok, '_line_slab_intersection', loc(slab), detail, key='slab')

    cylf = helpers.get('_line_infinite_cylinder_intersection')
    if cylf is not None and params_of(cylf) == ['a', 'b', 'r', 'n']:
        outs = returns(run_kernel(repo, cylf, {'a': vec1, 'b': vecl, 'r': P(dim='L', unit=Unit.param('len')), 'n': vec1}))
        trip = as_triple(outs[0].interp, outs[0].value) if len(outs) == 1 else None
        ok, detail = trip is not None, {}
        if ok:
            want = ref_cylinder(V('a'), V('b'), S('r', True), V('n'), S('U:len', True))
            got = [x.term for x in trip]
            ok = all(eq_term(g, w) for g, w in zip(got, want, strict=True))
            detail = {'computed': [T.show(g)[:160] for g in got], 'expected': [T.show(w)[:160] for w in want]}
        r5.check(ok, '_line_infinite_cylinder_intersection', loc(cylf), detail, key='cylinder')
    bfi = repo.func(MOD, 'Cylinder.beam_intersection')
    T.reset()
    it = Interp(repo, Model())
    box = {}

    def bi(i):
        cyl = cyl_bound(repo)(i)
        start = make_param(i, 'start', P(kind='vector', dim='L', dtype='vector3', unit=Unit.param('len')))
        direction = make_param(i, 'dir', P(kind='vector', dim='ONE', dtype='vector3', unit=Unit()))
        got = i.call_function(bfi, [start, direction], {}, bound=cyl)
        # the same geometry from the reference formulas: slab and infinite cylinder around the axis through the base, seen from the start point
        a_ = cyl.attrs['symmetry_line'].term
        b_ = cyl.attrs['center_of_base'].term - start.term
        scale = start.unit.scale()
        c_ok, c0, c1 = ref_cylinder(a_, b_, cyl.attrs['radius'].term, direction.term, scale)
        s_ok, s0, s1 = ref_slab(a_, b_, cyl.attrs['height'].term, direction.term, scale)
        box['want'] = T.fn_where(T.fn_bool('and', c_ok, s_ok), ref_interval(s0, s1, c0, c1), Rat.const(0))
        return got
    outs = it.run_all(bi)
    ok = len(outs) == 1 and outs[0].kind == 'return' and isinstance(outs[0].value, SVar) and isinstance(outs[0].value.term, Rat) \
        and isinstance(box.get('want'), Rat) and outs[0].value.term.eq(box['want'])
    r5.check(ok, 'Cylinder.beam_intersection', loc(bfi), {'outcomes': [(o.kind, o.exc_type, o.where) for o in outs],
                                                         'computed': show(outs[0].value)[:200] if outs and outs[0].kind == 'return' else None,
                                                         'expected': T.show(box['want'])[:200] if isinstance(box.get('want'), Rat) else None}, key='beam-intersection')

    # ---- R6 ---------------------------------------------------------------------------------------
    r6 = run.rule('R6', 'quadrature rules do not depend on call history (two-request histories of the rule selection in one interpreter: after any '
                        'other request the rule is the one a fresh interpreter hands out; two cylinders whose axes differ in the sign of a component; '
                        'two transmission maps with other wavelengths) and no memoised array is handed out', 3)
    qh_problems, qh_n = quadrature_histories(repo, select_fi)
    qfi = repo.func(MOD, 'Cylinder.quadrature')
    if select_fi.fq in qh_problems:
        qh_problems[qfi.fq] = qh_problems[select_fi.fq]
    oh_bad, oh_n = orientation_histories(repo, qfi, select_fi)
    if oh_bad:
        qh_problems.setdefault(qfi.fq, []).extend(oh_bad)
    qh_n += oh_n
    eff6 = history_free(repo, [qfi, select_fi], r6, histories=(qh_problems, qh_n))
    tfi6 = repo.func(bmod, 'compute_transmission_map')
    history_free(repo, [tfi6], r6, eff=eff6, histories=transmission_histories(repo, tfi6))
    return run
