"""C18 — cylinder absorption: path lengths, quadrature and transmission are geometric."""

from __future__ import annotations

import ast
import math

from sa import term as T
from sa.effects import Effects
from sa.interp import Interp, SObj, SVar
from sa.kernel import P, make_param, run_kernel
from sa.load import AnalysisError, Repo, loc
from sa.report import Run
from sa.scipp_model import Model
from sa.term import Rat, Vec
from sa.units import Unit

from .common import eq_term, events, history_free, returns, show

MOD = 'absorption.cylinder'
FROZEN_DEGREE = {'disk12': (7, 1e-13), 'disk55': (17, 5e-7), 'disk256_cheb': (31, 1e-6)}


def norm_(node) -> str:
    return ast.unparse(node).replace(' ', '')


def stmts(fn) -> list[str]:
    return [norm_(s) for s in ast.walk(fn) if isinstance(s, ast.stmt)
            and not isinstance(s, ast.FunctionDef | ast.If | ast.For | ast.Try | ast.With | ast.While)]


def S(n, pos=False):
    return Rat.sym(n, positive=pos)


def V(n):
    return Vec.sym(n)


def cyl_bound(repo):
    cls = repo.cls(MOD, 'Cylinder')

    def bound(it):
        return SObj(cls, {
            'symmetry_line': make_param(it, 'a', P(kind='vector', dim='ONE', dtype='vector3', unit=Unit())),
            'center_of_base': make_param(it, 'base', P(kind='vector', dim='L', dtype='vector3', unit=Unit.param('len'))),
            'radius': make_param(it, 'radius', P(dim='L', unit=Unit.param('len'))),
            'height': make_param(it, 'height', P(dim='L', unit=Unit.param('len')))})
    return bound


def disk_moment(a: int, b: int) -> float:
    """Integral of x^a y^b over the unit disk."""
    if a % 2 or b % 2:
        return 0.0
    return 2.0 * math.gamma((a + 1) / 2) * math.gamma((b + 1) / 2) / math.gamma((a + b) / 2 + 1) / (a + b + 2)


def vmin(x, y):
    return T.fn_where(T.fn_cmp('<=', x, y), x, y)


def vmax(x, y):
    return T.fn_where(T.fn_cmp('>=', x, y), x, y)


def max0(x):
    return vmax(x, Rat.const(0))


def run(tier: str) -> Run:
    run = Run('C18', tier, 'other',
              'Decided: (R1) the rotation that carries the reference quadrature from the z axis to the '
              'cylinder axis uses an angle whose range is [0, pi] (atan2(|z x a|, z.a) or acos(z.a)); asin of the '
              'cross-product norm only reaches [0, pi/2] and is reported; (R2) the literal disk rules in '
              'quadratures.py (read as data) have positive weights summing to pi, nodes inside the unit disk and '
              'integrate all monomials up to a frozen degree; (R3) the product rule is assembled disk-major with '
              'matching repeat/tile, scaled by radius / height/2 / r^2 h/2 and translated to the centre '
              'base + a h/2; volume = pi r^2 h; (R4) transmission = sum w exp(-mu (L_in + L_out)) / volume with '
              'L_in along -beam_direction; (R5) the line/cylinder, line/slab and interval formulas equal their '
              'reference normal forms; (R6) no module-level state is written (no memoised rule arrays).  Accuracy '
              'of the quadrature on the actual integrand and tangent/parallel degeneracies are runtime numerics.')
    repo = Repo()
    run.analysed = {'modules': [MOD, 'absorption.base', 'absorption.quadratures', 'absorption.material'], 'digest': repo.digest.hexdigest()}
    run.trusted = ['sa/scipp_model.py', 'scipp.spatial.rotations_from_rotvecs semantics (rotation by |v| about v)']

    # ---- R1 ------------------------------------------------------------------
    r1 = run.rule('R1', 'rotation angle from the z axis to the cylinder axis ranges over [0, pi]', 1)
    fi = repo.func(MOD, 'Cylinder.quadrature')
    outs = run_kernel(repo, fi, {}, extra_args={'kind': 'cheap'}, bound=cyl_bound(repo))
    rots = [e for o in outs for e in o.events if e.kind == 'rotation-from-rotvec']
    if not rots:
        raise AnalysisError('Cylinder.quadrature: no rotation from a rotation vector found')
    ez, a = Vec.basis('z'), V('a')
    axis = T.cross(ez, a)
    un = T.norm(axis)
    accepted = [axis * (T.fn_atan2(un, T.dot(ez, a)) / un), axis * (T.FN_CTORS['acos'](T.dot(ez, a)) / un)]
    for e in rots[:1]:
        t = e.detail.get('term')
        ok = isinstance(t, Vec) and any(t.eq(w) for w in accepted)
        r1.check(ok, 'rotation vector', e.where, {'rotation_vector': e.detail['rotvec'], 'accepted': [T.show(w) for w in accepted],
                                                  'note': 'asin(|z x a|) lies in [0, pi/2]: wrong for axes with negative z component'},
                 key='rotation')

    # ---- R2 tables --------------------------------------------------------------------
    r2 = run.rule('R2', 'disk rules: weights > 0, sum = pi, nodes in the unit disk, exact monomial moments up to the frozen degree', 3)
    qmi = repo.module('absorption.quadratures')
    for name, (deg, tol) in FROZEN_DEGREE.items():
        if name not in qmi.assigns:
            raise AnalysisError(f'quadrature table {name} not found')
        tab = ast.literal_eval(qmi.assigns[name])
        x, y, w = tab['x'], tab['y'], tab['weights']
        probs = []
        if not (len(x) == len(y) == len(w)):
            probs.append('length mismatch')
        if min(w) <= 0:
            probs.append(f'non-positive weight {min(w)}')
        if max(xi * xi + yi * yi for xi, yi in zip(x, y, strict=False)) > 1.0:
            probs.append('node outside the unit disk')
        worst = 0.0
        for d in range(deg + 1):
            for p in range(d + 1):
                q = d - p
                got = sum(wi * xi**p * yi**q for wi, xi, yi in zip(w, x, y, strict=False))
                worst = max(worst, abs(got - disk_moment(p, q)))
        if worst > tol:
            probs.append(f'moment error {worst:.3g} > {tol}')
        r2.check(not probs, name, f'src/scippneutron/absorption/quadratures.py:{name}',
                 {'points': len(w), 'degree': deg, 'max_moment_error': worst, 'sum_w_minus_pi': sum(w) - math.pi, 'problems': probs}, key=name)

    # ---- R3 assembly ----------------------------------------------------------------------
    r3 = run.rule('R3', 'product rule assembly, scaling and translation; centre and volume', 5)
    pfi = repo.func(MOD, '_cylinder_quadrature_from_product')
    T.reset()
    it = Interp(repo, Model())
    disk = {'weights': [2.0, 3.0], 'x': [5.0, 7.0], 'y': [11.0, 13.0]}
    line = {'x': [17.0, 19.0, 23.0], 'weights': [29.0, 31.0, 37.0]}
    outs = it.run_all(lambda i: i.call_function(pfi, [disk, line], {}))
    ok = len(outs) == 1 and outs[0].kind == 'return' and isinstance(outs[0].value, dict)
    detail = {}
    if ok:
        v = outs[0].value
        want = {'weights': [dw * lw for dw in disk['weights'] for lw in line['weights']],
                'x': [dx for dx in disk['x'] for _ in line['x']], 'y': [dy for dy in disk['y'] for _ in line['x']],
                'z': [lx for _ in disk['x'] for lx in line['x']]}
        ok = all(isinstance(v.get(k), list) and v[k] == want[k] for k in want)
        detail = {k: v.get(k) if isinstance(v.get(k), list) else repr(v.get(k)) for k in want}
    r3.check(ok, '_cylinder_quadrature_from_product', loc(pfi), detail, key='product')
    texts = stmts(fi.node)
    want_s = ["x=(quad['x']*self.radius).to(unit=self.center.unit)", "y=(quad['y']*self.radius).to(unit=self.center.unit)",
              "z=(quad['z']*self.height/2).to(unit=self.center.unit)", "weights=quad['weights']*(self.radius**2*self.height/2)",
              'points+=self.center', 'return(points,weights)']
    missing = [w for w in want_s if w not in texts]
    r3.check(not missing and any(t_.startswith("points=sc.vectors(dims=['quad'],values=sc.concat([x,y,z],dim='row').transpose(['quad','row']).values") for t_ in texts),
             'scaling and translation', loc(fi), {'missing': missing}, key='scaling')
    for prop, want_t in (('center', lambda: V('base') + V('a') * S('height', True) / 2),
                         ('volume', lambda: S('radius', True) ** 2 * S('height', True) * Rat.sym('pi', True))):
        pf = repo.func(MOD, f'Cylinder.{prop}')
        o = returns(run_kernel(repo, pf, {}, bound=cyl_bound(repo)))
        r3.check(len(o) == 1 and o[0].value.term is not None and eq_term(o[0].value.term, want_t()), prop, loc(pf),
                 {'computed': show(o[0].value) if o else None}, key=prop)
    sfi = repo.func(MOD, 'Cylinder._select_quadrature_points')
    texts = stmts(sfi.node)
    r3.check(texts.count('w*=(1-x**2)**0.5') == 2 and texts.count('w/=sum(w)/2') == 2 and texts.count('x,w=chebgauss(k)') == 2
             and 'x,w=leggauss(k)' in texts, '1-d rules normalised to total weight 2', loc(sfi), {}, key='line-rules')

    # ---- R4 transmission ---------------------------------------------------------------------
    r4 = run.rule('R4', 'transmission = sum w exp(-mu (L_in + L_out)) / volume, L_in along -beam_direction', 3)
    bmod = 'absorption.base'
    tfi = repo.func(bmod, '_transmission_fraction')
    mat_cls, sp_cls = repo.cls('absorption.material', 'Material'), repo.cls('atoms', 'ScatteringParams')

    def targs(it):
        sp = SObj(sp_cls, {'total_scattering_cross_section': make_param(it, 'sigma_s', P(dim='AREA', unit=Unit.named('barn'))),
                           'absorption_cross_section': make_param(it, 'sigma_a', P(dim='AREA', unit=Unit.named('barn')))})
        mat = SObj(mat_cls, {'scattering_params': sp, 'effective_sample_number_density': make_param(it, 'n', P(dim='L^-3', unit=Unit({'angstrom': -3})))})
        return {'material': mat, 'distance_through_sample': make_param(it, 'L', P(dim='L')), 'wavelength': make_param(it, 'wavelength', P(dim='L'))}
    T.reset()
    it = Interp(repo, Model())
    outs = it.run_all(lambda i: i.call_function(tfi, [], targs(i)))
    ok = len(outs) == 1 and outs[0].kind == 'return' and outs[0].value.term is not None
    detail = {}
    if ok:
        mu = S('n', True) * (S('sigma_s', True) + S('sigma_a', True) * S('wavelength', True) / (Rat.const(1.7982) * Unit.named('angstrom').scale()))
        want = T.fn_exp(-mu * S('L', True))
        bad = [e.detail for e in events(outs[0], 'unit-conversion-incompatible')]
        ok = eq_term(outs[0].value.term, want) and not bad
        detail = {'computed': show(outs[0].value)[:200], 'unit_problems': bad}
    r4.check(ok, '_transmission_fraction', loc(tfi), detail, key='fraction')
    dfi = repo.func(bmod, '_single_scatter_distance_through_sample')
    texts = stmts(dfi.node)
    r4.check('L1=sample_shape.beam_intersection(scatter_point,-initial_direction)' in texts
             and 'L2=sample_shape.beam_intersection(scatter_point,scatter_direction)' in texts and 'returnL1+L2' in texts,
             'L_in along -beam, L_out towards the detector', loc(dfi), {'statements': texts}, key='distance')
    cfi = repo.func(bmod, 'compute_transmission_map')
    ifi = repo.func(bmod, '_integrate_transmission_fraction')
    texts = stmts(cfi.node) + stmts(ifi.node)
    ok = any('data=transmission/sample_shape.volume' in t_ for t_ in texts) and 'points,weights=sample_shape.quadrature(quadrature_kind)' in texts \
        and 'scatter_direction=detector_position-points.to(unit=detector_position.unit)' in texts \
        and 'scatter_direction/=sc.norm(scatter_direction)' in texts and 'Ltot=distance_through_sample(scatter_direction)' in texts \
        and any('values=tf.values@weights.values' in t_ for t_ in texts)
    r4.check(ok, 'weighted sum divided by the volume', loc(cfi), {}, key='map')

    # ---- R5 geometry formulas ---------------------------------------------------------------------
    r5 = run.rule('R5', 'interval, slab and infinite-cylinder intersection formulas', 4)
    pif = repo.func(MOD, '_positive_interval_intersection')
    T.reset()
    it = Interp(repo, Model())

    def iargs(i):
        mk = lambda n: make_param(i, n, P(dim='L', positive=False, unit=Unit.param('len')))  # noqa: E731
        return [(mk('a0'), mk('a1')), (mk('b0'), mk('b1'))]
    outs = it.run_all(lambda i: i.call_function(pif, iargs(i), {}))
    ok = len(outs) == 1 and outs[0].kind == 'return' and outs[0].value.term is not None
    if ok:
        left, right = vmax(S('a0'), S('b0')), vmin(S('a1'), S('b1'))
        want = max0(max0(right) - max0(left))
        ok = eq_term(outs[0].value.term, want)
    r5.check(ok, '_positive_interval_intersection', loc(pif), {'computed': show(outs[0].value)[:200] if outs else None}, key='interval')

    slab = repo.func(MOD, '_line_slab_intersection')
    vs = {'a': P(kind='vector', dim='ONE', dtype='vector3', unit=Unit()), 'b': P(kind='vector', dim='L', dtype='vector3', unit=Unit.param('len')),
          'h': P(dim='L', unit=Unit.param('len')), 'n': P(kind='vector', dim='ONE', dtype='vector3', unit=Unit())}
    outs = returns(run_kernel(repo, slab, vs))
    ok = len(outs) == 1 and isinstance(outs[0].value, tuple) and len(outs[0].value) == 3 and all(isinstance(x, SVar) and x.term is not None for x in outs[0].value)
    detail = {}
    if ok:
        a_, b_, n_, h_ = V('a'), V('b'), V('n'), S('h', True)
        nd, bd = T.dot(n_, a_), T.dot(b_, a_)
        inplane = T.fn_bool('and', T.fn_cmp('<=', bd, Rat.const(0)), T.fn_cmp('>=', bd, -h_))
        par = T.fn_cmp('==', T.fn_abs(nd), Rat.const(0))
        t0 = bd / nd
        t1 = t0 + h_ / nd
        inf = Rat.const(float('inf'))
        want = (T.fn_bool('or', inplane, Rat.fn('not', par)), T.fn_where(par, -inf * S('U:len', True), vmin(t0, t1)),
                T.fn_where(par, inf * S('U:len', True), vmax(t1, t0)))
        got = [x.term for x in outs[0].value]
        ok = all(eq_term(g, w) for g, w in zip(got, want, strict=True))
        detail = {'computed': [T.show(g)[:160] for g in got], 'expected': [T.show(w)[:160] for w in want]}
    r5.check(ok, '_line_slab_intersection', loc(slab), detail, key='slab')

    cylf = repo.func(MOD, '_line_infinite_cylinder_intersection')
    vs = {'a': vs['a'], 'b': vs['b'], 'r': P(dim='L', unit=Unit.param('len')), 'n': vs['n']}
    outs = returns(run_kernel(repo, cylf, vs))
    ok = len(outs) == 1 and isinstance(outs[0].value, tuple) and len(outs[0].value) == 3 and all(isinstance(x, SVar) and x.term is not None for x in outs[0].value)
    detail = {}
    if ok:
        a_, b_, n_, r_ = V('a'), V('b'), V('n'), S('r', True)
        nxa = T.cross(n_, a_)
        nsq = T.dot(nxa, nxa)
        par = T.fn_cmp('==', nsq, Rat.const(0))
        s2 = nsq * r_**2 - T.dot(b_, nxa) ** 2
        s = T.sqrt(s2)
        m = T.dot(nxa, T.cross(b_, a_))
        inter = T.fn_cmp('>=', s2, Rat.const(0))
        inside = T.fn_cmp('<=', T.norm(b_ - a_ * T.dot(b_, a_)), r_)
        inf = Rat.const(float('inf')) * S('U:len', True)
        want = (T.fn_where(par, inside, inter), T.fn_where(par, -inf, (m - s) / nsq), T.fn_where(par, inf, (m + s) / nsq))
        got = [x.term for x in outs[0].value]
        ok = all(eq_term(g, w) for g, w in zip(got, want, strict=True))
        detail = {'computed': [T.show(g)[:160] for g in got], 'expected': [T.show(w)[:160] for w in want]}
    r5.check(ok, '_line_infinite_cylinder_intersection', loc(cylf), detail, key='cylinder')
    bfi = repo.func(MOD, 'Cylinder.beam_intersection')
    texts = stmts(bfi.node)
    ok = 'base_point=self.center_of_base-start_point' in texts \
        and any(t_.startswith('returnsc.where(cyl_intersection&slab_intersection,_positive_interval_intersection(slab_interval,cyl_interval),sc.scalar(0.0,unit=start_point.unit)') for t_ in texts) \
        and any(t_.startswith('cyl_intersection,*cyl_interval=_line_infinite_cylinder_intersection(self.symmetry_line,base_point,self.radius,direction)') for t_ in texts) \
        and any(t_.startswith('slab_intersection,*slab_interval=_line_slab_intersection(self.symmetry_line,base_point,self.height,direction)') for t_ in texts)
    r5.check(ok, 'Cylinder.beam_intersection', loc(bfi), {'statements': texts}, key='beam-intersection')

    # ---- R6 ---------------------------------------------------------------------------------------
    r6 = run.rule('R6', 'quadrature / transmission code writes no module-level state and hands out no memoised arrays', 3)
    history_free(repo, [repo.func(MOD, 'Cylinder.quadrature'), repo.func(MOD, 'Cylinder._select_quadrature_points'),
                        repo.func(bmod, 'compute_transmission_map')], r6)
    return run
