"""C07 — kernels are unit-equivariant and keep the documented dtype contract."""

from __future__ import annotations

import itertools

from sa import term as T
from sa.interp import SVar
from sa.kernel import P, run_kernel, specs_for
from sa.load import AnalysisError, Repo, loc
from sa.report import Run
from sa.units import DIMENSIONLESS, Unit

from .common import events, raises, returns, show

U = Unit.param
ANG, MEV, RAD = Unit.named('angstrom'), Unit.named('meV'), Unit.named('rad')

# documented result unit per public kernel (None: not claimed, with reason)
TOF_UNITS = {
    'wavelength_from_tof': ANG,
    'dspacing_from_tof': ANG,
    'energy_from_tof': MEV,
    'energy_transfer_direct_from_tof': U('incident_energy'),
    'energy_transfer_indirect_from_tof': U('final_energy'),
    'energy_from_wavelength': MEV,
    'wavelength_from_energy': ANG,
    'Q_from_wavelength': U('wavelength') ** -1,
    'wavelength_from_Q': ANG,
    'Q_elements_from_wavelength': {k: U('wavelength') ** -1 for k in ('Qx', 'Qy', 'Qz')},
    'dspacing_from_wavelength': ANG,
    'dspacing_from_energy': ANG,
    'Q_vec_from_Q_elements': U('Qx'),
    'ub_matrix_from_u_and_b': U('u_matrix') * U('b_matrix'),
    'hkl_vec_from_Q_vec': U('Q_vec') / (U('sample_rotation') * U('ub_matrix')),
    'hkl_elements_from_hkl_vec': {k: U('hkl_vec') for k in 'hkl'},
}
BEAMLINE_UNITS = {
    'L1': U('incident_beam'),
    'L2': U('scattered_beam'),
    'straight_incident_beam': U('sample_position'),
    'straight_scattered_beam': U('position'),
    'total_beam_length': U('L1'),
    'total_straight_beam_length_no_scatter': U('position'),
    'two_theta': RAD,
    'beam_aligned_unit_vectors': {f'beam_aligned_unit_{c}': DIMENSIONLESS for c in 'xyz'},
    'scattering_angles_with_gravity': {'two_theta': RAD, 'phi': RAD},
    'scattering_angle_in_yz_plane': RAD,
}
CASCADE_UNITS = {
    'wavelength_to_inverse_velocity': Unit({'s': 1, 'm': -1}),
    'propagate_times': U('time'),
}
CASCADE_SPECS = {
    'wavelength': P(dim='L'), 'time': P(dim='T', positive=False), 'distance': P(dim='L', positive=False),
}
NOT_CLAIMED = {
    'time_at_sample_from_tof': 'adds an integer time offset to a datetime; scipp requires both to be '
                               'given in the same unit, so the unit grid of the property does not apply',
}

# The package documents that these operands must be given in one common unit
# (scipp raises UnitError otherwise; no wrong value is produced).  Frozen table;
# any other unit disagreement inside a kernel is reported.
SAME_UNIT_PRECONDITIONS = {
    ('straight_incident_beam', 'u(sample_position)', 'u(source_position)'),
    ('straight_scattered_beam', 'u(position)', 'u(sample_position)'),
    ('total_beam_length', 'u(L1)', 'u(L2)'),
    ('total_straight_beam_length_no_scatter', 'u(position)', 'u(source_position)'),
    ('Q_vec_from_Q_elements', 'Qx/Qy/Qz', ''),
}

# which operands decide single vs double precision of the result (documented contract)
DATA_OPERANDS = {
    'wavelength_from_tof': ['tof'], 'dspacing_from_tof': ['tof'], 'energy_from_tof': ['tof'],
    'energy_transfer_direct_from_tof': ['tof', 'incident_energy'],
    'energy_transfer_indirect_from_tof': ['tof', 'final_energy'],
    'energy_from_wavelength': ['wavelength'], 'wavelength_from_energy': ['energy'],
    'Q_from_wavelength': ['wavelength'], 'wavelength_from_Q': ['Q'],
    'dspacing_from_wavelength': ['wavelength'], 'dspacing_from_energy': ['energy'],
    'scattering_angles_with_gravity': ['wavelength'], 'scattering_angle_in_yz_plane': ['wavelength'],
}
NO_DTYPE_CONTRACT = {
    'total_beam_length': 'a bare L1 + L2: the result dtype is whatever scipp promotes the two lengths to; '
                         'no precision contract is documented for it',
}
ALWAYS = {
    'Q_elements_from_wavelength': 'float64', 'Q_vec_from_Q_elements': 'vector3',
    'ub_matrix_from_u_and_b': 'linear_transform3', 'hkl_vec_from_Q_vec': 'vector3',
    'hkl_elements_from_hkl_vec': 'float64', 'L1': 'float64', 'L2': 'float64',
    'straight_incident_beam': 'vector3', 'straight_scattered_beam': 'vector3',
    'total_straight_beam_length_no_scatter': 'float64', 'two_theta': 'float64',
    'beam_aligned_unit_vectors': 'vector3',
}


def flat(value):
    if isinstance(value, dict):
        return list(value.items())
    return [(None, value)]


def mismatch_allowed(kernel: str, e) -> bool:
    d = e.detail
    for k, left, right in SAME_UNIT_PRECONDITIONS:
        if k != kernel:
            continue
        if not left and not right:
            return True
        if k == 'Q_vec_from_Q_elements' and d.get('op') == 'as_vectors':
            return True
        if {d.get('left'), d.get('right')} == {left, right}:
            return True
    return False


def run(tier: str) -> Run:
    run = Run('C07', tier, 'proof',
              'Every public kernel is interpreted over its AST with symbolic input units u(p) and '
              'concrete dtypes.  Unit rule: on every returning path the result unit, as a power product '
              'of named units and u(p) symbols, equals the documented one; every to_unit / .to(unit=) '
              'obligation is dimensionally satisfiable; no unit disagreement occurs outside the frozen '
              'same-unit preconditions; the physical-value normal form contains no U:<param> symbol, '
              'i.e. no bare number was re-labelled with an input unit.  Dtype rule: the kernel is '
              're-interpreted for every point of the dtype grid and the result dtype is read off the '
              'measured scipp promotion table.  Each rule instance is one obligation; the claim is '
              'relative to the scipp model table.')
    repo = Repo()
    run.analysed = {'modules': ['conversion.tof', 'conversion.beamline', 'tof.chopper_cascade', '_utils'],
                    'digest': repo.digest.hexdigest()}
    run.trusted = ['sa/scipp_model.py: unit algebra, measured dtype promotion table (scipp 25.4)', 'sa/interp.py']
    run.assumptions = ['scipp.to_unit preserves the physical value and raises for incompatible dimensions',
                       'operands named in SAME_UNIT_PRECONDITIONS are supplied in one unit (scipp raises otherwise)']
    r1 = run.rule('R1', 'result unit equals the documented unit for symbolic input units', 28)
    r2 = run.rule('R2', 'unit-conversion obligations are satisfiable; no unit disagreement outside the frozen preconditions', 28)
    r3 = run.rule('R3', 'no raw number re-labelled with an input unit reaches the result', 28)
    r4 = run.rule('R4', 'dtype contract over the dtype grid', 60)

    plan = []
    for name, want in TOF_UNITS.items():
        plan.append(('conversion.tof', name, want, None))
    for name, want in BEAMLINE_UNITS.items():
        plan.append(('conversion.beamline', name, want, None))
    for name, want in CASCADE_UNITS.items():
        plan.append(('tof.chopper_cascade', name, want, CASCADE_SPECS))
    # every public function of the two conversion modules must be in the plan
    for mod, table in (('conversion.tof', TOF_UNITS), ('conversion.beamline', BEAMLINE_UNITS)):
        for fname in repo.module(mod).functions:
            if not fname.startswith('_') and fname not in table and fname not in NOT_CLAIMED:
                run.extra.setdefault('unspecified_public_kernels', []).append(f'{mod}:{fname}')
    run.extra['not_claimed'] = NOT_CLAIMED

    grid_choices = ('float64', 'float32', 'int64') if tier == 'quick' else ('float64', 'float32', 'int64', 'int32')
    n_grid = 0
    for mod, name, want, overrides in plan:
        fi = repo.func(mod, name)
        specs = specs_for(fi, overrides)
        outs = run_kernel(repo, fi, specs)
        rets = returns(outs)
        if not rets:
            raise AnalysisError(f'{fi.fq} has no returning path')
        # R1
        bad = []
        for o in rets:
            vals = flat(o.value)
            for key, v in vals:
                w = want[key] if isinstance(want, dict) else want
                if not isinstance(v, SVar) or v.unit is None:
                    raise AnalysisError(f'unit of {fi.fq} result is unknown (⊤)')
                if v.unit != w:
                    bad.append({'key': key, 'computed': repr(v.unit), 'documented': repr(w)})
            if isinstance(want, dict) and isinstance(o.value, dict) and set(o.value) != set(want):
                bad.append({'keys': sorted(o.value), 'documented_keys': sorted(want)})
        r1.check(not bad, name, loc(fi), {'paths': len(rets), 'mismatch': bad[:3], 'documented': repr(want)},
                 key=f'{mod}:{name}')
        # R2
        probs = []
        for o in outs:
            for e in events(o, 'unit-conversion-incompatible', 'unit-obligation-unknown'):
                probs.append({'kind': e.kind, 'where': e.where, **e.detail})
            for e in events(o, 'unit-mismatch'):
                if not mismatch_allowed(name, e):
                    probs.append({'kind': e.kind, 'where': e.where, **e.detail})
        uniq = {p['where'] + p.get('stmt', ''): p for p in probs}
        r2.check(not uniq, name, loc(fi), {'problems': list(uniq.values())[:4]}, key=f'{mod}:{name}')
        # R3
        leaks = []
        for o in rets:
            for key, v in flat(o.value):
                if v.term is None:
                    raise AnalysisError(f'abstract value of {fi.fq} is unknown (⊤): {v.why}')
                syms = sorted({T.A(i).name for i in v.term.atoms() if T.A(i).kind == 'sym' and T.A(i).name.startswith('U:')})
                if syms:
                    leaks.append({'key': key, 'unit_symbols_in_value': syms, 'value': show(v)[:200]})
        r3.check(not leaks, name, loc(fi), {'leaks': leaks[:3]}, key=f'{mod}:{name}')

        # R4 dtype grid (conversion kernels only: the contract is documented there)
        if mod == 'tof.chopper_cascade':
            # no precision contract is documented for the cascade helpers (a float32 time is promoted today); what the property
            # does promise for every kernel is unit equivariance, which an operand squeezed into an integer dtype breaks
            # (5 ms + 5.028 ms flight time is not 10 ms): no integer unit conversion, no cast to an integer dtype, for any operand dtypes
            scalars = [p for p, s in specs.items() if s.kind == 'scalar']
            for combo in itertools.product(grid_choices, repeat=len(scalars)):
                dt = dict(zip(scalars, combo, strict=True))
                n_grid += 1
                inst = f'{name}[' + ','.join(f'{p}={d}' for p, d in dt.items()) + ']'
                verdicts = []
                for o in run_kernel(repo, fi, specs, dtypes=dt):
                    if o.kind == 'raise':
                        continue
                    for e in events(o, 'int-unit-conversion'):
                        verdicts.append({'integer_unit_conversion': e.detail, 'where': e.where})
                    for e in events(o, 'narrowing-cast'):
                        if e.detail['dst'] in ('int64', 'int32'):
                            verdicts.append({'narrowing_cast': e.detail, 'where': e.where})
                    for key, v in flat(o.value):
                        if any(d.startswith('int') for d in dt.values()) and not any(d == 'float32' for d in dt.values()) and v.dtype != 'float64':
                            verdicts.append({'key': key, 'dtype': v.dtype, 'expected': 'float64 (integer and double-precision operands)'})
                r4.check(not verdicts, inst, loc(fi), {'problems': verdicts[:2]}, key=f'{mod}:{name}:int-squeeze' if verdicts else inst)
            continue
        if name in NO_DTYPE_CONTRACT:
            continue
        scalars = [p for p, s in specs.items() if s.kind == 'scalar']
        # kernels whose precision is chosen from two data operands: 32-bit integers next to single precision are in the quick grid
        # too (same width, different precision class)
        choices = ('float64', 'float32', 'int64', 'int32') if len(DATA_OPERANDS.get(name, ())) > 1 else grid_choices
        for combo in itertools.product(choices, repeat=len(scalars)):
            dt = dict(zip(scalars, combo, strict=True))
            n_grid += 1
            inst = f'{name}[' + ','.join(f'{p}={d}' for p, d in dt.items()) + ']'
            gouts = run_kernel(repo, fi, specs, dtypes=dt)
            if name in ALWAYS:
                expect = ALWAYS[name]
            else:
                data = DATA_OPERANDS[name]
                expect = 'float32' if all(dt[p] == 'float32' for p in data) else 'float64'
            verdicts = []
            na = False
            for o in gouts:
                if o.kind == 'raise':
                    if o.exc_type == 'DTypeError':
                        if "'pow' does not support dtypes int32" in (o.where or ''):
                            na = True  # scipp has no int32 ** int arithmetic: outside the property's grid
                            continue
                        verdicts.append({'raises': 'DTypeError', 'where': o.where})
                    continue
                for key, v in flat(o.value):
                    if v.dtype != expect:
                        verdicts.append({'key': key, 'dtype': v.dtype, 'expected': expect})
                if expect == 'float64':
                    # documented double precision: a float32 angle is widened before the trigonometric function is evaluated
                    # (all kernels do; evaluating it in float32 leaves ~3e-8 in a result labelled float64 - defect F11).
                    # Arithmetic on a float32 operand in its own precision (Ltotal**2) is the operand's rounding and not judged.
                    low = sorted({op for key, v in flat(o.value) for _, op, d in v.hist
                                  if d == 'float32' and op in ('sin', 'cos', 'tan', 'asin', 'acos', 'atan', 'atan2', 'exp', 'log')})
                    if low:
                        verdicts.append({'single_precision_operations': low, 'result_dtype': 'float64'})
                for e in events(o, 'int-unit-conversion'):
                    verdicts.append({'integer_unit_conversion': e.detail, 'where': e.where})
                for e in events(o, 'narrowing-cast'):
                    # float -> int always loses the fraction; float64 -> float32 is by
                    # design only where a single-precision operand is present
                    # (where the documented result is double precision, rounding an intermediate to single precision
                    # loses digits that the float64 label of the result promises)
                    if e.detail['dst'] in ('int64', 'int32') or expect != 'float32':
                        verdicts.append({'narrowing_cast': e.detail, 'where': e.where})
            if na and not verdicts:
                r4.ok(inst, {'verdict': 'n/a: scipp has no arithmetic for this combination'}, nontrivial=False)
                continue
            fkey = f'{mod}:{name}:' + (verdicts[0].get('raises') or ('cast' if 'narrowing_cast' in verdicts[0] else 'int-unit' if 'integer_unit_conversion' in verdicts[0] else 'f32-op' if 'single_precision_operations' in verdicts[0] else 'dtype')) if verdicts else inst
            # one finding per kernel and failure kind, not per grid point
            r4.check(not verdicts, inst, loc(fi), {'problems': verdicts[:2], 'expected': expect}, key=fkey)
    run.extra['dtype_grid_points'] = n_grid

    # R5: re-expressing an input in another unit must not push a single-precision intermediate out of float32
    r5 = run.rule('R5', 'over the unit grid (ns..s, angstrom/mm/m/km, ueV..J, deg/rad) and the physical ranges of the inputs, no float32 '
                        'power-product intermediate leaves the normal range of float32', 11)
    from checks.magrule import RANGES, UNIT_GRID, worst_f32
    run.extra['magnitude_ranges_SI'] = {k: list(v) for k, v in RANGES.items()}
    run.extra['unit_grid'] = {k: list(v) for k, v in UNIT_GRID.items()}
    for name in DATA_OPERANDS:
        if name not in TOF_UNITS:
            continue
        fi = repo.func('conversion.tof', name)
        worst, n_runs, n_products = worst_f32(repo, fi, fixed_same=[('L1', 'L2')], corners=tier == 'quick')
        if n_runs == 0:
            continue
        if n_products == 0:
            # nothing is computed in single precision (a dtype-contract matter: R4); the instance still counts
            r5.ok(name, {'unit_assignments': n_runs, 'power_products_bounded': 0, 'note': 'no float32 intermediate for float32 inputs (see R4)'}, nontrivial=False)
            continue
        r5.check(worst is None, name, loc(fi), {'unit_assignments': n_runs, 'power_products_bounded': n_products, 'worst': worst},
                 key=f'conversion.tof:{name}:f32-range')
    # R6: the unit and dtype of a result do not depend on what was converted before
    r6 = run.rule('R6', 'unit and dtype of a result do not depend on call history: two-call histories of the conversion kernels in one world '
                        '(other units, other precision, both at once, another kernel first, the same variables updated in place)', 11)
    from .common import history_free, kernel_histories
    kfis = [repo.func('conversion.tof', n) for n in DATA_OPERANDS if n in TOF_UNITS]
    history_free(repo, kfis, r6, histories=kernel_histories(repo, kfis))
    run.exhaustive = tier == 'thorough'
    return run
