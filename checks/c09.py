"""C09 — computations never modify their arguments; results do not depend on call history."""

from __future__ import annotations

import ast
import os

from sa import term as T
from sa.effects import Effects
from sa.kernel import P, run_kernel, specs_for
from sa.load import AnalysisError, Repo, loc
from sa.report import Run

from .common import events

TARGET_PREFIXES = ('conversion', 'chopper', 'tof', 'peaks', 'absorption', 'io', 'atoms', 'core')

# documented mutators: (function, allowed root, reason)
ALLOWED_MUTATORS = {
    'io.cif:Block.add': 'documented builder method of Block (adds a chunk or loop to this block)',
    'io.cif:Chunk.__setitem__': 'mapping interface of Chunk',
    'io.cif:Loop.__setitem__': 'mapping interface of Loop',
    'io.sqw._build:SqwBuilder.add_default_instrument': 'SqwBuilder is a mutable builder; add_* are documented to modify and return it',
    'io.sqw._build:SqwBuilder.add_default_sample': 'SqwBuilder builder method',
    'io.sqw._build:SqwBuilder.add_empty_detector_params': 'SqwBuilder builder method',
    'io.sqw._build:SqwBuilder.add_empty_dnd_data': 'SqwBuilder builder method',
    'io.sqw._build:SqwBuilder.add_pixel_data': 'SqwBuilder builder method',
    'tof.chopper_cascade:FrameSequence.acceptance_diagram': 'plotting helper; rebinds .distance of frames freshly created by propagate_to (read: the frames are new objects; the analysis merges list elements)',
    'tof.diagram:TimeDistanceDiagram.add_neutrons': 'draws on the matplotlib axes owned by this diagram',
}
GRAPH_FACTORIES = [
    ('conversion.graph.tof', n) for n in (
        'elastic', 'kinematic', 'elastic_dspacing', 'elastic_energy', 'elastic_Q', 'elastic_Q_vec',
        'elastic_hkl', 'elastic_wavelength', 'direct_inelastic', 'indirect_inelastic')
] + [
    ('conversion.graph.beamline', n) for n in ('incident_beam', 'scattered_beam', 'two_theta', 'L1', 'L2', 'Ltotal', 'beamline')
] + [('core.conversions', 'conversion_graph'), ('core.conversions', 'deduce_conversion_graph')]
COPIES = [
    ('io.cif', 'CIF.copy'), ('io.cif', 'Block.copy'), ('io.cif', 'CIF.with_authors'), ('io.cif', 'CIF.with_reducers'),
    ('io.cif', 'CIF.with_beamline'), ('io.cif', 'CIF.with_reduced_powder_data'), ('io.cif', 'CIF.with_powder_calibration'),
    ('peaks.model', 'Model.with_prefix'),
]
MUTABLE_ANN = ('sc.Variable', 'Variable', 'sc.DataArray', 'DataArray', 'list', 'dict', 'np.ndarray', 'ndarray', 'set')
KERNEL_MODULES = ['conversion.tof', 'conversion.beamline']
CASCADE_SPECS = {'wavelength': P(dim='L'), 'time': P(dim='T', positive=False), 'distance': P(dim='L', positive=False)}


def _private_path(module: str) -> bool:
    return any(p.startswith('_') for p in module.split('.') if p)


_EXPORTED: dict[int, set] = {}


def exported_from_private_modules(repo) -> set:
    """(module, top-level name) of every function or class that a module with a public path imports under a public name
    (lazy-loader stubs included): the part of a private module that is reachable as API."""
    if id(repo) in _EXPORTED:
        return _EXPORTED[id(repo)]
    out = set()
    for mname, mi in repo.modules.items():
        if _private_path(mname):
            continue
        for local, imp in mi.imports.items():
            if local.startswith('_') or imp[0] != 'rel':
                continue
            got = repo.resolve_rel(imp[1], imp[2])
            if got is not None and got[0] in ('func', 'class'):
                out.add((got[1].module, got[1].name if got[0] == 'class' else got[1].qualname))
        pyi = os.path.join(os.path.dirname(mi.path), '__init__.pyi')
        if os.path.basename(mi.path) == '__init__.py' and os.path.exists(pyi):
            try:
                tree = ast.parse(open(pyi, encoding='utf-8').read())
            except SyntaxError:
                continue
            for st in tree.body:
                if isinstance(st, ast.ImportFrom) and st.level:
                    for a in st.names:
                        if (a.asname or a.name).startswith('_'):
                            continue
                        got = repo._resolve_stub(mname, pyi, a.asname or a.name)
                        if got is not None and got[0] in ('func', 'class'):
                            out.add((got[1].module, got[1].name if got[0] == 'class' else got[1].qualname))
    _EXPORTED[id(repo)] = out
    return out


def is_public(fi, eff=None) -> bool:
    parts = fi.qualname.split('.')
    if _private_path(fi.module) and eff is not None:
        # a name without underscore inside a private module is API only where a public module re-exports it
        if (fi.module, parts[0]) not in exported_from_private_modules(eff.repo):
            return False
    if fi.cls is not None and fi.cls.name.startswith('_') and eff is not None:
        # methods of a private class are entry points only through public subclasses (e.g. _CIFBase -> Chunk, Loop);
        # a private record or helper class without any is internal to the functions that build it
        if not any(not c.name.startswith('_') for c in eff.subclasses_of(fi.cls)):
            return False
    name = parts[1] if len(parts) > 1 else parts[0]
    if name.startswith('__') and name.endswith('__'):
        return name not in ('__init__', '__post_init__', '__new__', '__repr__', '__str__', '__eq__', '__hash__')
    return not name.startswith('_')


def run(tier: str) -> Run:
    run = Run('C09', tier, 'other',
              'Effect summaries (who-may-mutate, returns-alias-of) are computed to a fixpoint over the '
              'intra-package call graph with a may-alias domain whose roots are parameters (with one '
              'level of access paths), and module-level tables.  Decided: (R1) no public function of '
              'the listed modules writes, directly or through callees, to an object reachable from an '
              'argument, except the frozen list of documented mutators; copy=False conversions count '
              'as aliases (the no-op case of the property); (R1b) the conversion kernels are also '
              'interpreted with object identity, where a copy=False conversion may-aliases its '
              'operand exactly when units/dtypes could coincide; (R2) no public function hands out a '
              'module-level table, and copy/with_* combinators return objects whose containers are '
              'not those of the original; (R3) the result type of every lru_cache/cache-decorated '
              'lookup exposes no mutable field except through accessors that copy.  Mutation inside '
              'scipp/numpy callees is by the model (only out=).')
    repo = Repo()
    eff = Effects(repo)
    eff.solve()
    run.analysed = {'functions': len(eff.funcs), 'calls_resolved': eff.resolved_calls,
                    'calls_unresolved_or_external': eff.unresolved_calls, 'digest': repo.digest.hexdigest()}
    run.trusted = ['sa/effects.py tables of mutating / aliasing / copying library calls', 'sa/scipp_model.py (alias rows measured once, notes/witnesses/t12.py)']
    run.assumptions = ['scipp and numpy functions write only to their out= argument',
                       'Variable.copy() / DataArray.copy() are deep unless deep=False']

    r1 = run.rule('R1', 'public functions write to nothing reachable from an argument (frozen list of documented mutators excepted)', 170)
    n_pub = 0
    for fq, fi in sorted(eff.funcs.items()):
        if not fi.module.startswith(TARGET_PREFIXES) or not is_public(fi, eff):
            continue
        n_pub += 1
        s = eff.summaries[fq]
        bad = {}
        for tok, m in s.mutates.items():
            if not tok.startswith('p:'):
                continue  # module-level state: whether it reaches what is handed out is R2 / R3; it is not an argument
            root = tok[2:].split('.')[0].split('[')[0]
            if (fq in ALLOWED_MUTATORS or fq.endswith('.setter')) and root == 'self':
                continue  # documented mutators of their own object; a property setter is one by definition
            bad[tok] = m
        if bad:
            tok, m = sorted(bad.items())[0]
            r1.fail(fq, m.where, {'writes_to': sorted(bad), 'how': m.how, 'statement': m.stmt, 'via': m.via},
                    key=f'{fq}:{sorted({t[2:].split(".")[0].split("[")[0] for t in bad})}')
        else:
            r1.ok(fq, nontrivial=bool(s.mutates) or bool(fi.node.body))
    for fq in ALLOWED_MUTATORS:
        if fq not in eff.funcs:
            raise AnalysisError(f'allow-listed mutator {fq} no longer exists: remove it from the table')

    r1b = run.rule('R1b', 'kernels interpreted with object identity: no argument (or possible alias of one) is written', 28)
    plan = []
    for mod in KERNEL_MODULES:
        for name, fi in repo.module(mod).functions.items():
            if not name.startswith('_'):
                plan.append((fi, None))
    for name in ('wavelength_to_inverse_velocity', 'propagate_times'):
        plan.append((repo.func('tof.chopper_cascade', name), CASCADE_SPECS))
    for fi, ov in plan:
        try:
            specs = specs_for(fi, ov)
        except AnalysisError as ex:
            # a public function of a kernel module whose parameters have no physical role in the table (not a conversion kernel):
            # R1 decides it through the effect summaries
            r1b.ok(fi.fq, {'decided_by': 'R1', 'reason': str(ex)[:120]}, nontrivial=False)
            continue
        outs = run_kernel(repo, fi, specs)
        writes = [dict(e.detail, where=e.where) for o in outs for e in events(o, 'mutates-param')]
        uniq = list({w['where'] + w['param']: w for w in writes}.values())
        r1b.check(not uniq, fi.fq, loc(fi), {'writes': uniq[:3]}, key=fi.fq)

    r2 = run.rule('R2', 'no module-level table is handed out; graph factories return fresh dicts', 17)
    for mod, name in GRAPH_FACTORIES:
        fi = repo.func(mod, name)
        s = eff.summaries[fi.fq]
        g = sorted(t for t in s.ret.cont if t.startswith('g:'))
        r2.check(not g, fi.fq, loc(fi), {'returns_container': g, 'elements_from': sorted(t for t in s.ret.elem if t.startswith('g:'))[:3]}, key=fi.fq)
    seen = {repo.func(m, n).fq for m, n in GRAPH_FACTORIES}
    # module-level containers that some function of the package writes to (memo tables kept by hand)
    runtime_tables = {t.rstrip('[]') for s_ in eff.summaries.values() for t in s_.mutates if t.startswith('g:')}
    for fq, fi in sorted(eff.funcs.items()):
        if fq in seen or not fi.module.startswith(TARGET_PREFIXES) or not is_public(fi, eff):
            continue
        rs = eff.summaries[fq].ret
        g = sorted(t for t in rs.cont if t.startswith('g:'))
        ret_ann = ast.unparse(fi.node.returns).strip('\'"') if fi.node.returns is not None else ''
        if g and ret_ann not in ('str', 'int', 'float', 'bool', 'bytes', 'None'):
            r2.fail(fq, loc(fi), {'returns_container': g}, key=fq)
            continue
        # one level down: a fresh record or list whose fields / elements are objects stored by a memoising wrapper
        memo = {}
        for k, v in (rs.fields or ()):
            # (a functools cache, or an entry of a module-level table written at run time: a memo table kept by hand)
            c = sorted(t for t in v.cont if t.startswith('g:') and (t.endswith('#cache') or t.rstrip('[]') in runtime_tables))
            if c:
                memo[k] = c
        ce = sorted(t.rstrip('[]') for t in rs.elem if t.startswith('g:') and (t.rstrip('[]').endswith('#cache') and not t.endswith('[]')
                                                                                 or t.endswith('[]') and not t.endswith('[][]') and t[:-2] in runtime_tables))
        if ce:
            memo['<elements>'] = ce
        if memo and ret_ann not in ('str', 'int', 'float', 'bool', 'bytes', 'None'):
            r2.fail(fq, loc(fi), {'fields_holding_memoised_objects': memo}, key=fq + ':memo-field')

    r2b = run.rule('R2b', 'copy() / with_*() return objects that share no container with the original', 8)
    for mod, name in COPIES:
        fi = repo.func(mod, name)
        s = eff.summaries[fi.fq]
        shared = {}
        own = sorted(t for t in s.ret.cont if t.startswith('p:self'))
        if own:
            shared['<object>'] = own
        for k, v in (s.ret.fields or ()):
            c = sorted(t for t in v.cont if t.startswith('p:self'))
            if c:
                shared[k] = c
        if s.ret.fields is None and name != 'Model.with_prefix' and not shared:
            raise AnalysisError(f'{fi.fq}: the returned object could not be tracked (no field map)')
        r2b.check(not shared, fi.fq, loc(fi), {'shared_containers': shared}, key=fi.fq)

    r3 = run.rule('R3', 'results of cached lookups expose no mutable state except through copying accessors', 1)
    for fq, fi in sorted(eff.funcs.items()):
        decs = fi.decorators()
        if not any(d.split('(')[0].split('.')[-1] in ('lru_cache', 'cache', 'cached_property') for d in decs):
            continue
        if not fi.module.startswith(TARGET_PREFIXES):
            continue
        ret = ast.unparse(fi.node.returns).strip('\'"') if fi.node.returns is not None else ''
        mi = repo.module(fi.module)
        ci = mi.classes.get(ret.split('|')[0].strip())
        if ci is None:
            r3.ok(fq, {'returns': ret or '(unannotated)', 'note': 'not a class of the package: nothing to expose'}, nontrivial=False)
            continue
        exposed = []
        for st in ci.node.body:
            if isinstance(st, ast.AnnAssign) and isinstance(st.target, ast.Name):
                ann = ast.unparse(st.annotation)
                mutable = any(a in ann for a in MUTABLE_ANN)
                if mutable and not st.target.id.startswith('_'):
                    exposed.append(st.target.id)
        leaking = []
        for mname, mfi in ci.methods.items():
            ms = eff.summaries.get(mfi.fq)
            if ms is None or mname.startswith('__'):
                continue
            toks = sorted(t for t in ms.ret.cont if t.startswith('p:self.'))
            # returning an immutable field (str/int) is fine: only mutable-annotated fields count
            for t in toks:
                fname = t[len('p:self.'):].rstrip('[]')
                for st in ci.node.body:
                    if isinstance(st, ast.AnnAssign) and isinstance(st.target, ast.Name) and st.target.id == fname \
                            and any(a in ast.unparse(st.annotation) for a in MUTABLE_ANN):
                        leaking.append(f'{mname} returns self.{fname} without copying')
        r3.check(not exposed and not leaking, fq, loc(fi),
                 {'cached_result_class': ci.name, 'public_mutable_fields': exposed, 'non_copying_accessors': leaking},
                 key=f'{fq}')
    # ---- R5: histories (interpreted, one world per history) -----------------------------------------
    r5 = run.rule('R5', 'histories in one world (module-level tables, caches and iterators persist between the calls): a graph factory called again '
                        'after its first result was emptied and overwritten by the caller hands out the graph of a fresh interpreter; a bundled-table '
                        'lookup answers the same after any other lookup', 10)
    from sa.interp import FuncRef, Interp, RaiseSignal
    from sa.scipp_model import Model

    def signature(g):
        return tuple((str(k), v.fi.fq if isinstance(v, FuncRef) else repr(v)) for k, v in g.items()) if isinstance(g, dict) else repr(g)
    factory_args = {'elastic': [{'start': 'tof'}, {'start': 'wavelength'}, {'start': 'Q'}], 'kinematic': [{'start': 'tof'}],
                    'beamline': [{'scatter': True}, {'scatter': False}], 'Ltotal': [{'scatter': True}, {'scatter': False}],
                    'conversion_graph': [{'origin': 'tof', 'target': 'wavelength', 'scatter': True, 'energy_mode': 'elastic'},
                                         {'origin': 'tof', 'target': 'L2', 'scatter': True, 'energy_mode': 'elastic'},
                                         {'origin': 'tof', 'target': 'wavelength', 'scatter': False, 'energy_mode': 'elastic'}]}
    for mod, name in GRAPH_FACTORIES:
        ffi = repo.func(mod, name)
        params = [a_.arg for a_ in ffi.node.args.posonlyargs + ffi.node.args.args + ffi.node.args.kwonlyargs]
        variants = factory_args.get(name)
        if variants is None:
            if params and name != 'deduce_conversion_graph':
                variants = None
            elif not params:
                variants = [{}]
        if not variants:
            continue  # (needs a data object: decided by the effect summaries above and by C02)

        def request(i, kw, ffi=ffi):
            try:
                return i.call_function(ffi, [], dict(kw))
            except RaiseSignal as r_:
                return ('raise', r_.exc_type)
        T.reset()
        it5 = Interp(repo, Model())
        fresh = {}
        for k_, kw in enumerate(variants):
            fresh[k_] = [signature(o.value) for o in it5.run_all(lambda i, kw=kw: request(i, kw))]
        bad = []
        n5 = 0
        for a_, kwa in enumerate(variants):
            for b_, kwb in enumerate(variants):
                n5 += 1

                def history(i, kwa=kwa, kwb=kwb):
                    g1 = request(i, kwa)
                    if isinstance(g1, dict):
                        # the caller does what it likes with the result
                        for key in list(g1):
                            g1[key] = 'overwritten by the caller'
                        i.note_store(g1)
                        g1.clear()
                    i.end_of_call()
                    return request(i, kwb)
                got = [signature(o.value) for o in it5.run_all(history)]
                if got != fresh[b_]:
                    bad.append({'history': [str(kwa), 'result emptied by the caller', str(kwb)], 'fresh': str(fresh[b_])[:160], 'after': str(got)[:160]})
        r5.check(not bad, f'{mod}:{name}', loc(ffi), {'histories': n5, 'histories_with_another_graph': len(bad), 'first': bad[:1]}, key=f'history:{mod}:{name}')
    from .c20 import lookup_histories, read_tables
    for cls_name, lfi7, n7, bad7 in lookup_histories(repo, read_tables(repo)):
        r5.check(not bad7, f'atoms:{cls_name}.for_isotope', loc(lfi7), {'histories': n7, 'histories_with_another_answer': len(bad7), 'first': bad7[:1]},
                 key=f'history:atoms:{cls_name}')
    run.extra['public_functions'] = n_pub
    run.extra['allowed_mutators'] = ALLOWED_MUTATORS
    return run
