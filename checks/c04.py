"""C04 — gravity-corrected angles follow the documented construction on every code path."""

from __future__ import annotations

from sa import term as T
from sa.kernel import P, run_kernel, specs_for
from sa.load import AnalysisError, Repo, loc, where_of
from sa.report import Run
from sa.term import Rat, Vec
from sa.units import Unit
from spec import formulas
from spec.formulas import S, V

from .common import private_helper, eq_term, events, raises, returns, show, term_of


def expected():
    b1, b2, g, lam = V('incident_beam'), V('scattered_beam'), V('gravity'), S('wavelength')
    ex, ey, ez = formulas.beam_frame(b1, g)
    delta = formulas.gravity_drop(T.norm(b2), lam, g)
    yprime = T.dot(b2, ey) + delta
    x, z = T.dot(b2, ex), T.dot(b2, ez)
    raised = b2 + ey * delta
    return {
        'frame': (ex, ey, ez),
        'delta': delta,
        'generic_two_theta': [formulas.kahan_angle(b1, raised), formulas.cross_dot_angle(b1, raised)],
        'phi': T.fn_atan2(yprime, x),
        'ortho_two_theta': T.fn_atan2(T.sqrt(x**2 + yprime**2), z),
        'yz': T.fn_atan2(T.fn_abs(yprime), z),
        'predicate': T.fn_cmp('>', T.fn_abs(T.dot(g, b1)),
                              Rat.const(1e-10) * S('U:incident_beam') * T.norm(g)),
    }


def cond_term(c):
    return getattr(c, 'term', None)


def any_inner(c):
    """x of a condition any(x), else None."""
    ct = cond_term(c)
    if isinstance(ct, Rat) and ct.den is T.ONE_P and len(ct.num) == 1:
        (m, _), = ct.num.items()
        if len(m) == 1:
            a = T.A(m[0][0])
            if a.kind == 'fn' and a.name == 'any':
                return a.args[0]
    return None


def dispatch_condition(o, predicate):
    """(condition, taken, is_documented_predicate): the decision of this path that tests the documented predicate,
    wherever on the path it is taken; if there is none, the first decision of the path (reported as not the predicate)."""
    for c, taken, _ in o.conditions:
        inner = any_inner(c)
        if inner is not None and eq_term(inner, predicate):
            return c, taken, True
    c, taken, _ = o.conditions[0]
    return c, taken, False


def run(tier: str) -> Run:
    run = Run('C04', tier, 'other',
              'The gravity kernels are interpreted on every path (dispatcher, general and optimised '
              'implementation, reflectometry variant) to exact normal forms and compared with the '
              'documented construction written from the formulas of the module documentation: drop '
              'distance, beam-aligned frame, raised beam b2 + delta*e_y with e_y = -g/|g| (coefficient '
              '+1 on delta along e_y at every site), 2theta and phi on both implementations, the '
              'dispatch predicate and the refusal of the reflectometry variant under the same '
              'predicate.  Continuity/limit statements follow from both branches being the same '
              'function of the inputs and are not separately decided.')
    repo = Repo()
    run.analysed = {'modules': ['conversion.beamline'], 'digest': repo.digest.hexdigest()}
    run.trusted = ['sa/scipp_model.py', 'sa/term.py', 'spec/formulas.py (documented construction)']
    r1 = run.rule('R1', 'drop distance = |g| m_n^2 lambda^2 L^2 / (2 h^2), non-negative, in the unit of the distance', 1)
    r2 = run.rule('R2', 'orientation: the detected beam is raised against gravity (coefficient +1 on delta along e_y = -g/|g|) at every site', 4)
    r3 = run.rule('R3', 'angles equal the documented construction on the general and the optimised path', 4)
    r4 = run.rule('R4', 'dispatch predicate |g.b1| > 1e-10*|g|; reflectometry variant refuses under the same predicate', 2)
    r5 = run.rule('R5', 'beam-aligned frame equals its definition', 3)
    r6 = run.rule('R6', 'no argument is written on any path', 3)

    # R1
    # the helper is private: without it (or with another signature) the drop is decided inside the angles (R2, R3)
    fi = private_helper(repo, 'conversion.beamline', '_drop_due_to_gravity', ['distance', 'wavelength', 'gravity'])
    if fi is None:
        r1.ok('drop distance inside the documented angles (no separate helper)', {'decided_by': 'R2, R3'})
    else:
        specs = specs_for(fi, {'distance': P(dim='L')})
        outs = returns(run_kernel(repo, fi, specs))
        want = formulas.gravity_drop(S('distance'), S('wavelength'), V('gravity'))
        ok = bool(outs)
        detail = []
        for o in outs:
            got = term_of(o.value, fi)
            good = eq_term(got, formulas.gravity_drop(S('distance'), S('wavelength'), V('gravity'))) \
                and got.sign() == 1 and o.value.unit == Unit.param('distance')
            ok = ok and good
            detail.append({'computed': T.show(got), 'sign': got.sign(), 'unit': repr(o.value.unit)})
        r1.check(ok, '_drop_due_to_gravity', loc(fi), {'paths': detail[:2], 'documented': T.show(want)}, key='_drop_due_to_gravity')

    # R5 frame
    fi = repo.func('conversion.beamline', 'beam_aligned_unit_vectors')
    outs = run_kernel(repo, fi, specs_for(fi))
    exp = expected()
    for o in returns(outs):
        for c, wantv in zip('xyz', exp['frame'], strict=True):
            v = o.value.get(f'beam_aligned_unit_{c}') if isinstance(o.value, dict) else None
            if v is None:
                r5.fail(f'e_{c}', loc(fi), 'missing key', key=f'e_{c}')
                continue
            got = term_of(v, fi)
            r5.check(eq_term(got, wantv), f'e_{c}', loc(fi), {'computed': T.show(got), 'definition': T.show(wantv)}, key=f'e_{c}')

    # dispatcher
    fi = repo.func('conversion.beamline', 'scattering_angles_with_gravity')
    outs = run_kernel(repo, fi, specs_for(fi))
    exp = expected()
    seen = {'generic': 0, 'ortho': 0}
    pred_ok = True
    pred_seen = []
    for o in outs:
        if not o.conditions:
            raise AnalysisError('scattering_angles_with_gravity has no dispatch condition')
        if o.kind != 'return' and not any(any_inner(c) is not None and eq_term(any_inner(c), exp['predicate']) for c, _, _ in o.conditions):
            continue  # refused before the dispatch was decided (e.g. by the frame construction)
        c0, taken, this_ok = dispatch_condition(o, exp['predicate'])
        ct = cond_term(c0)
        pred_ok = pred_ok and this_ok
        pred_seen.append(T.show(ct) if ct is not None else repr(c0))
        if o.kind != 'return':
            continue
        path = 'generic' if taken else 'ortho'
        seen[path] += 1
        tt, phi = o.value.get('two_theta'), o.value.get('phi')
        got_tt, got_phi = term_of(tt, fi), term_of(phi, fi)
        if path == 'generic':
            okt = any(eq_term(got_tt, w) for w in exp['generic_two_theta'])
            site = '_scattering_angles_with_gravity_generic'
            wants = [T.show(w) for w in exp['generic_two_theta']]
        else:
            okt = eq_term(got_tt, exp['ortho_two_theta'])
            site = '_scattering_angles_with_gravity_orthogonal_coords'
            wants = [T.show(exp['ortho_two_theta'])]
        swhere = where_of(repo, 'conversion.beamline', site, 'scattering_angles_with_gravity')
        if seen[path] == 1:
            r3.check(okt, f'{path}: two_theta', swhere, {'computed': T.show(got_tt), 'documented': wants}, key=f'{site}:two_theta')
            r3.check(eq_term(got_phi, exp['phi']), f'{path}: phi', swhere,
                     {'computed': T.show(got_phi), 'documented': T.show(exp['phi'])}, key=f'{site}:phi')
            # R2: orientation, read off the coefficient of delta along e_y
            r2.check(orientation_ok(got_phi, numerator=True), f'{path}: y component of phi', swhere,
                     {'y_argument': T.show(atan2_args(got_phi)[0]) if atan2_args(got_phi) else None,
                      'expected': 'b2.e_y + delta'}, key=f'{site}:phi-orientation')
            r2.check(okt, f'{path}: raised beam in two_theta', swhere,
                     {'computed': T.show(got_tt), 'expected': 'angle(b1, b2 + delta*e_y), e_y = -g/|g|'},
                     key=f'{site}:two_theta-orientation')
        muts = events(o, 'mutates-param')
        if muts and path:
            r6.fail(f'scattering_angles_with_gravity[{path}]', swhere, [dict(e.detail, where=e.where) for e in muts],
                    key=f'{site}:mutation')
    if not seen['generic'] or not seen['ortho']:
        raise AnalysisError(f'dispatcher paths not both reached: {seen}')
    if not any(f.get('key', '').endswith('mutation') for f in r6.failed):
        r6.ok('scattering_angles_with_gravity[generic]')
        r6.ok('scattering_angles_with_gravity[ortho]')
    r4.check(pred_ok, 'dispatch predicate', loc(fi), {'conditions': sorted(set(pred_seen))[:2], 'expected': 'any(' + T.show(exp['predicate']) + ')'},
             key='dispatch')

    # reflectometry variant
    fi = repo.func('conversion.beamline', 'scattering_angle_in_yz_plane')
    outs = run_kernel(repo, fi, specs_for(fi))
    exp = expected()
    refuse_ok = True
    n_ret = 0
    for o in outs:
        c0, taken, is_pred = dispatch_condition(o, exp['predicate'])
        if not is_pred:
            refuse_ok = False
        if taken and not (o.kind == 'raise' and o.exc_type == 'ValueError'):
            refuse_ok = False
        if not taken and o.kind == 'raise' and 'scattering_angle_in_yz_plane' in (o.where or ''):
            refuse_ok = False
        if o.kind == 'return':
            n_ret += 1
            got = term_of(o.value, fi)
            if n_ret == 1:
                r3.check(eq_term(got, exp['yz']), 'yz: gamma', loc(fi), {'computed': T.show(got), 'documented': T.show(exp['yz'])}, key='yz:gamma')
                r2.check(eq_term(got, exp['yz']), 'yz: y component', loc(fi), {'computed': T.show(got)}, key='yz:orientation')
            muts = events(o, 'mutates-param')
            if muts:
                r6.fail('scattering_angle_in_yz_plane', loc(fi), [dict(e.detail, where=e.where) for e in muts], key='yz:mutation')
    if not any(f.get('key') == 'yz:mutation' for f in r6.failed):
        r6.ok('scattering_angle_in_yz_plane')
    r4.check(refuse_ok and n_ret > 0, 'reflectometry refusal', loc(fi),
             {'expected': 'raise ValueError iff any(' + T.show(exp['predicate']) + ')'}, key='yz:refusal')

    # R7: single-precision wavelength - magnitude of the float32 intermediates over the unit grid
    r7 = run.rule('R7', 'for float32 wavelengths 0.1..100 angstrom (angstrom/nm/m), beams of 0.1 m..1 km (angstrom..km) and |g| 1..100 m/s^2 no float32 '
                        'power-product intermediate leaves the normal range of float32', 2)
    from checks.magrule import worst_f32
    for name in ('scattering_angles_with_gravity', 'scattering_angle_in_yz_plane'):
        kfi = repo.func('conversion.beamline', name)
        worst, n_runs, n_products = worst_f32(repo, kfi, fixed_same=[('incident_beam', 'scattered_beam')], corners=tier == 'quick')
        if n_runs == 0:
            raise AnalysisError(f'{kfi.fq}: parameters without a physical range')
        if n_products == 0:
            r7.ok(name, {'unit_assignments': n_runs, 'power_products_bounded': 0, 'note': 'no float32 intermediate for a float32 wavelength'}, nontrivial=False)
            continue
        r7.check(worst is None, name, loc(kfi), {'unit_assignments': n_runs, 'power_products_bounded': n_products, 'worst': worst}, key=f'{name}:f32-range')
    return run


def atan2_args(t: Rat):
    if t.den is T.ONE_P and len(t.num) == 1:
        (m, c), = t.num.items()
        if len(m) == 1 and T.A(m[0][0]).name == 'atan2':
            return T.A(m[0][0]).args
    return None


def orientation_ok(phi: Rat, numerator: bool) -> bool:
    """y argument of phi must be (b2 . e_y) + delta with e_y = -g/|g|."""
    args = atan2_args(phi)
    if args is None:
        return False
    b2, g, lam = V('scattered_beam'), V('gravity'), S('wavelength')
    ey = -g / T.norm(g)
    want = T.dot(b2, ey) + formulas.gravity_drop(T.norm(b2), lam, g)
    return eq_term(args[0], want)
