"""Shared harness of C12 / C13: run the SQW builder in the abstract interpreter on symbolic inputs and
keep the abstract file it wrote (sa/absio.py) together with everything that was supplied."""

from __future__ import annotations

from sa import term as T
from sa.absio import AbsFile, LayoutMismatch
from sa.interp import RaiseSignal, SObj, SVar
from sa.kernel import P, make_param
from sa.load import AnalysisError, Repo
from sa.sqwio import NOW, SqwInterp, SqwModel, set_shape
from sa.term import Rat
from sa.units import NO_UNIT, Unit, parse_unit

SQW, MODELS, BUILD, RW = 'io.sqw._sqw', 'io.sqw._models', 'io.sqw._build', 'io.sqw._read_write'
ROW_NAMES = ('u1', 'u2', 'u3', 'u4', 'irun', 'idet', 'ien', 'signal', 'error')
ROW_UNITS = ('1/angstrom', '1/angstrom', '1/angstrom', 'meV', None, None, None, 'count', 'count**2')
# input units differ from the row units where a conversion exists
COORD_INPUT_UNITS = {'u1': '1/nm', 'u2': '1/angstrom', 'u3': '1/nm', 'u4': 'ueV', 'irun': None, 'idet': None, 'ien': None}
CANONICAL = [('', 'main_header'), ('', 'detpar'), ('data', 'metadata'), ('data', 'nd_data'), ('experiment_info', 'instruments'),
             ('experiment_info', 'samples'), ('experiment_info', 'expdata'), ('pix', 'metadata'), ('pix', 'data_wrap')]
DND_SHAPE = (2, 1, 3, 1)


class World:
    def __init__(self, repo: Repo):
        T.reset()
        self.repo = repo
        self.tag = ''  # appended to the names of the symbols made from now on (a second set of inputs with other values)
        self.model = SqwModel()
        self.it = SqwInterp(repo, self.model)
        self.it.events, self.it.conditions = [], []
        from sa import absio
        absio.CTX['interp'], absio.CTX['model'] = self.it, self.model

    def sv(self, name, unit, shape=(), dtype='float64', kind='scalar', dims=None):
        u = NO_UNIT if unit is None else (parse_unit(unit) if isinstance(unit, str) else unit)
        spec = P(kind='vector' if kind == 'vector' else 'scalar', dim='ONE', positive=False, unit=u, dtype='vector3' if kind == 'vector' else dtype)
        v = make_param(self.it, name, spec, suffix=self.tag)
        return set_shape(v, shape, dims)

    def const(self, values, unit=None, dims=('axis',), dtype='float64'):
        """A variable with concrete values."""
        r = self.model.sc_array(self.it, [], {'dims': list(dims), 'values': list(values), 'unit': unit, 'dtype': dtype}, None)
        return r

    def call(self, fi, args, kwargs=None, bound=None, budget=None):
        if budget is not None:
            self.it.steps = 0
            self.it.MAX_STEPS = budget
        try:
            return 'return', self.it.call_function(fi, list(args), dict(kwargs or {}), bound=bound)
        except AnalysisError as ex:
            if budget is not None and ('interpretation exceeds' in str(ex) or 'inlining depth exceeded' in str(ex)):
                return 'runaway', 'the reader does not terminate within the step budget (it walks off the data)'
            raise
        except RaiseSignal as r:
            return 'raise', (r.exc_type, r.where, r.exc_args)
        except LayoutMismatch as e:
            return 'layout', str(e)

    def call_construct(self, ci, args, kwargs=None):
        """Construct an object of the package through its own constructor."""
        try:
            return 'return', self.it.construct(ci, list(args), dict(kwargs or {}), None)
        except RaiseSignal as r:
            return 'raise', (r.exc_type, r.where, r.exc_args)
        except LayoutMismatch as e:
            return 'layout', str(e)

    def cls(self, mod, name):
        return self.repo.cls(mod, name)

    def enum(self, mod, cls, member):
        return self.it.enum_members(self.repo.cls(mod, cls))[member]


def pixel_data(w: World, n: int) -> SVar:
    coords = {name: w.sv('c_' + name, COORD_INPUT_UNITS[name], (n,), dims=['obs']) for name in ROW_NAMES[:7]}
    data = w.sv('signal', 'count', (n,), dims=['obs'])
    da = SVar(data.term, data.unit, data.dtype, origin='pix')
    da.kind = 'dataarray'
    da.members['coords'] = coords
    set_shape(da, (n,), ['obs'])
    return w.it.track(da)


def experiment(w: World, k: int, direct=True, transposed=False, template: SObj | None = None) -> SObj:
    if template is not None:
        # what dataclasses.replace(template, run_id=k) gives: the same variables (and their memory) in every record
        return SObj(template.cls, {**template.attrs, 'run_id': k, 'filename': f'run{k}.nxs'})
    if direct:
        efix = w.sv(f'efix{k}', 'ueV')
        en = w.sv(f'en{k}', 'ueV', (3,), dims=['energy_transfer'])
    else:  # indirect geometry: one fixed energy per detector, energy transfer per detector
        efix = w.sv(f'efix{k}', 'ueV', (2,), dims=['detector'])
        if transposed:  # the same data supplied with the dims the other way round
            en = w.sv(f'en{k}', 'ueV', (3, 2), dims=['energy_transfer', 'detector'])
        else:
            en = w.sv(f'en{k}', 'ueV', (2, 3), dims=['detector', 'energy_transfer'])
    return SObj(w.cls(MODELS, 'SqwIXExperiment'), {
        'run_id': k, 'efix': efix, 'emode': w.enum(MODELS, 'EnergyMode', 'direct' if direct else 'indirect'),
        'en': en, 'psi': w.sv(f'psi{k}', 'deg'),
        'u': w.sv(f'eu{k}', None, kind='vector'), 'v': w.sv(f'ev{k}', None, kind='vector'), 'omega': w.sv(f'omega{k}', 'deg'),
        'dpsi': w.sv(f'dpsi{k}', 'rad'), 'gl': w.sv(f'gl{k}', 'deg'), 'gs': w.sv(f'gs{k}', 'deg'), 'filename': f'run{k}.nxs', 'filepath': '/data'})


def instrument(w: World) -> SObj:
    src = SObj(w.cls(MODELS, 'SqwIXSource'), {'name': 'moderator', 'target_name': 'TS2', 'frequency': w.sv('freq', 'Hz')})
    return SObj(w.cls(MODELS, 'SqwIXNullInstrument'), {'name': 'LET', 'source': src})


def sample(w: World) -> SObj:
    return SObj(w.cls(MODELS, 'SqwIXSample'), {'name': 'vanadium', 'lattice_spacing': w.sv('s_alatt', 'angstrom', kind='vector'),
                                                'lattice_angle': w.sv('s_angdeg', 'deg', kind='vector')})


def dnd_metadata(w: World) -> SObj:
    u4 = ['1/angstrom'] * 3 + ['meV']
    axes = SObj(w.cls(MODELS, 'SqwLineAxes'), {
        'title': 'axes title', 'label': ['h', 'k', 'l', 'E'],
        'img_scales': [w.sv(f'scale{k}', u) for k, u in enumerate(u4)],
        'img_range': [w.sv(f'range{k}', u, (2,), dims=['range']) for k, u in enumerate(u4)],
        'n_bins_all_dims': w.const([float(x) for x in DND_SHAPE], unit=None),
        'single_bin_defines_iax': w.const([False, True, False, True], unit=None, dtype='bool'),
        'dax': w.const([0, 1, 2, 3], unit=None, dtype='int64'),
        'offset': [w.sv(f'aoff{k}', u) for k, u in enumerate(u4)],
        'changes_aspect_ratio': True, 'filename': '', 'filepath': ''})
    proj = SObj(w.cls(MODELS, 'SqwLineProj'), {
        'lattice_spacing': w.sv('alatt', 'angstrom', kind='vector'), 'lattice_angle': w.sv('angdeg', 'deg', kind='vector'),
        'offset': [w.sv(f'poff{k}', u) for k, u in enumerate(u4)], 'title': 'proj title', 'label': ['a', 'b', 'c', 'd'],
        'u': w.sv('pu', '1/angstrom', kind='vector'), 'v': w.sv('pv', '1/angstrom', kind='vector'), 'w': w.sv('pw', '1/angstrom', kind='vector'),
        'non_orthogonal': False, 'type': 'aaa'})
    return SObj(w.cls(MODELS, 'SqwDndMetadata'), {'axes': axes, 'proj': proj, 'creation_date': NOW})


class Written:
    """Result of one builder run."""

    def __init__(self):
        self.file: AbsFile | None = None
        self.outcome = None
        self.supplied: dict = {}
        self.world: World | None = None
        self.calls = ()
        self.byteorder = 'little'
        self.n_pixels = 0
        self.n_runs = 0


def build(repo: Repo, calls=('P', 'I', 'S', 'D', 'T'), byteorder='little', n_pixels=5, chunk=2, n_runs=1, target='memory', title='a title', indirect=False, transposed=False, shared_runs=False,
          world=None, run_ids=None) -> Written:
    """`world`: write one more file in the world of an earlier build (module-level tables and caches of the package persist)."""
    w = world if world is not None else World(repo)
    out = Written()
    out.world, out.calls, out.byteorder, out.n_pixels, out.n_runs = w, tuple(calls), byteorder, n_pixels, n_runs
    target_obj = AbsFile(True) if target == 'memory' else '/tmp/out.sqw'
    kind, b = w.call(repo.func(SQW, 'Sqw.build'), [target_obj], {'title': title, 'byteorder': byteorder})
    if kind != 'return':
        raise AnalysisError(f'Sqw.build failed: {b}')
    sup = out.supplied
    sup['title'] = title
    for c in calls:
        if c == 'P':
            sup['pixels'] = pixel_data(w, n_pixels)
            sup['experiments'] = []
            for k in range(n_runs):
                tmpl = sup['experiments'][0] if shared_runs and sup['experiments'] else None
                sup['experiments'].append(experiment(w, k, direct=not indirect, transposed=transposed, template=tmpl))
                if run_ids is not None:
                    sup['experiments'][-1].attrs['run_id'] = run_ids[k]  # the caller numbers its runs as it likes
            kind, b2 = w.call(repo.func(BUILD, 'SqwBuilder.add_pixel_data'), [sup['pixels']], {'experiments': sup['experiments']}, bound=b)
        elif c == 'I':
            sup['instrument'] = instrument(w)
            kind, b2 = w.call(repo.func(BUILD, 'SqwBuilder.add_default_instrument'), [sup['instrument']], bound=b)
        elif c == 'S':
            sup['sample'] = sample(w)
            kind, b2 = w.call(repo.func(BUILD, 'SqwBuilder.add_default_sample'), [sup['sample']], bound=b)
        elif c == 'D':
            sup['dnd'] = dnd_metadata(w)
            kind, b2 = w.call(repo.func(BUILD, 'SqwBuilder.add_empty_dnd_data'), [sup['dnd']], bound=b)
        elif c == 'T':
            kind, b2 = w.call(repo.func(BUILD, 'SqwBuilder.add_empty_detector_params'), [], bound=b)
        else:
            raise AnalysisError(f'unknown builder call {c}')
        if kind != 'return':
            out.outcome = (kind, f'builder call {c}: {b2}')
            return out
        b = b2 if isinstance(b2, SObj) else b
    kind, res = w.call(repo.func(BUILD, 'SqwBuilder.create'), [], {'chunk_size': chunk}, bound=b)
    out.outcome = (kind, res if kind != 'return' else None)
    out.file = target_obj if isinstance(target_obj, AbsFile) else w.model.fs.get('/tmp/out.sqw')
    out.target = target_obj
    return out


def expected_blocks(calls) -> list:
    have = {('', 'main_header')}
    if 'P' in calls:
        have |= {('experiment_info', 'expdata'), ('pix', 'metadata'), ('pix', 'data_wrap')}
    if 'I' in calls:
        have.add(('experiment_info', 'instruments'))
    if 'S' in calls:
        have.add(('experiment_info', 'samples'))
    if 'D' in calls:
        have |= {('data', 'metadata'), ('data', 'nd_data')}
    if 'T' in calls:
        have.add(('', 'detpar'))
    return [b for b in CANONICAL if b in have]


def reopen(written: Written, byteorder=None):
    """Open the written file with the package's reader; returns (kind, Sqw object or error)."""
    w = written.world
    if written.file is None:
        return 'raise', 'no file was written'
    written.file.seek(0)
    w.it.yielded.clear()
    src = written.file if written.file.is_bytesio else '/tmp/out.sqw'
    kind, res = w.call(w.repo.func(SQW, 'Sqw.open'), [src], {'byteorder': byteorder} if byteorder else {}, budget=400_000)
    if kind != 'return':
        return kind, res
    if not isinstance(res, list) or not res:
        return 'raise', 'Sqw.open yields nothing'
    return 'return', res[0]
