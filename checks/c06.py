"""C06 — event-mode conversion equals dense conversion and preserves the data."""

from __future__ import annotations

from sa import term as T
from sa.interp import FuncRef, Interp, SVar
from sa.kernel import P, ROLE, run_kernel, specs_for
from sa.load import AnalysisError, Repo, loc
from sa.report import Run
from sa.scipp_model import Model

from .common import beamline_graph, elastic_graphs, eq_term, events, returns, show

PER_EVENT_BREAKERS = ('reduction-of-tainted', 'index-of-tainted', 'numpy-on-tainted', 'raw-value')
EXTRA_KERNELS = [
    ('conversion.beamline', 'scattering_angles_with_gravity'),
    ('conversion.beamline', 'scattering_angle_in_yz_plane'),
]


def graph_kernels(repo: Repo):
    out = {}
    table = elastic_graphs(repo)
    for graph in table.values():
        for ref in graph.values():
            if isinstance(ref, FuncRef):
                out[ref.fi.fq] = ref.fi
    for scatter in (True, False):
        for ref in beamline_graph(repo, scatter).values():
            if isinstance(ref, FuncRef):
                out[ref.fi.fq] = ref.fi
    for fac in ('direct_inelastic', 'indirect_inelastic'):
        ffi = repo.func('conversion.graph.tof', fac)
        T.reset()
        it = Interp(repo, Model())
        for o in it.run_all(lambda i, f=ffi: i.call_function(f, [], {'start': 'tof'})):
            if o.kind == 'return' and isinstance(o.value, dict):
                for ref in o.value.values():
                    if isinstance(ref, FuncRef):
                        out[ref.fi.fq] = ref.fi
    for mod, name in EXTRA_KERNELS:
        fi = repo.func(mod, name)
        out[fi.fq] = fi
    return out


def tainted_condition(o):
    bad = []
    for c, taken, where in o.conditions:
        if isinstance(c, SVar) and c.taint:
            bad.append(where)
    return bad


def flat(v):
    return list(v.values()) if isinstance(v, dict) else [v]


def run(tier: str) -> Run:
    run = Run('C06', tier, 'other',
              'Decides the two necessary conditions for per-event equality that live in scippneutron '
              '(the per-event application itself, and the preservation of weights, order, masks and '
              'bin membership, are scipp.transform_coords and are not analysed).  Every kernel reachable '
              'from a graph table (plus the gravity kernels) is interpreted with its event-coordinate '
              'parameters marked possibly-binned, in a mode where .unit/.dtype/.values of a binned '
              'variable are unavailable: (R1) only broadcasting operations touch a possibly-binned '
              'value: no reduction, sort, indexing, raw .value(s), numpy call or Python `if` on it; '
              '(R2) unit/dtype are only obtained through elem_unit/elem_dtype, which dispatch on '
              '`bins is not None` to the event buffer; (R3) the dense and the binned interpretation '
              'produce the same normal form, unit and dtype; (R4) no argument is written.')
    repo = Repo()
    run.analysed = {'modules': ['conversion.tof', 'conversion.beamline', '_utils', 'conversion.graph.tof', 'conversion.graph.beamline'],
                    'digest': repo.digest.hexdigest()}
    run.trusted = ['sa/scipp_model.py (which operations broadcast over events)', 'sa/interp.py']
    run.assumptions = ['scipp applies broadcasting operations to every event of a binned operand',
                       'transform_coords does not modify its input and keeps weights/masks/bin membership']
    kernels = graph_kernels(repo)
    run.analysed['kernels'] = sorted(kernels)
    r1 = run.rule('R1', 'only broadcasting operations on possibly-binned operands', 24)
    r2 = run.rule('R2', 'unit/dtype of possibly-binned operands only via elem_unit/elem_dtype', 24)
    r3 = run.rule('R3', 'dense and binned interpretation give the same normal form, unit and dtype', 24)
    r4 = run.rule('R4', 'no argument is written (dense and binned)', 24)
    for fq, fi in sorted(kernels.items()):
        specs = specs_for(fi)
        dense = run_kernel(repo, fi, specs, binned=False)
        dense_vals = [(show(v), repr(v.unit), v.dtype) for o in returns(dense) for v in flat(o.value)]
        binned = run_kernel(repo, fi, specs, binned=True)
        breakers, unsafe, muts = [], [], []
        for o in binned:
            for e in events(o, *PER_EVENT_BREAKERS):
                if e.kind == 'raw-value' and not e.detail.get('tainted'):
                    continue
                breakers.append({'kind': e.kind, 'where': e.where, 'stmt': e.detail.get('stmt', '')})
            for w in tainted_condition(o):
                breakers.append({'kind': 'python-branch-on-event-data', 'where': w})
        # a decision on the size / shape of the operand (bins are counted for event data, elements for dense data) that selects between
        # two ways of computing the result; a decision that only refuses (raises on one side) is the same refusal in both modes
        sides: dict = {}
        for o in binned:
            for c, taken, where in o.conditions:
                if getattr(c, 'shape_of_events', False):
                    sides.setdefault(where, set()).add((taken, o.kind))
        for where, seen_ in sides.items():
            if (True, 'return') in seen_ and (False, 'return') in seen_:
                breakers.append({'kind': 'result-selected-by-the-size-of-the-operand', 'where': where})
        for o in binned:
            for e in events(o, 'binned-unsafe-access'):
                unsafe.append({'where': e.where, **e.detail})
        for o in dense + binned:
            for e in events(o, 'mutates-param'):
                muts.append({'where': e.where, **e.detail})
        uniq = lambda xs: list({str(x): x for x in xs}.values())  # noqa: E731
        r1.check(not breakers, fi.qualname, loc(fi), {'non_broadcasting_uses': uniq(breakers)[:4]}, key=fq)
        r2.check(not unsafe, fi.qualname, loc(fi), {'unsafe_accesses': uniq(unsafe)[:4]}, key=fq)
        binned_vals = [(show(v), repr(v.unit), v.dtype) for o in returns(binned) for v in flat(o.value)]
        r3.check(dense_vals == binned_vals and bool(dense_vals), fi.qualname, loc(fi),
                 {'dense': dense_vals[:2], 'binned': binned_vals[:2]}, key=fq)
        r4.check(not muts, fi.qualname, loc(fi), {'writes': uniq(muts)[:3]}, key=fq)
        # the same over the dtypes of event coordinates: what the dense kernel accepts and returns for an integer or
        # single-precision coordinate, it accepts and returns for events of that dtype
        data_ops = [p_ for p_, s_ in specs.items() if s_.taint and s_.kind == 'scalar']
        for dt_ in ('int64', 'float32'):
            if not data_ops:
                break
            dts = {p_: dt_ for p_ in data_ops}
            d_o = run_kernel(repo, fi, specs, dtypes=dts, binned=False)
            b_o = run_kernel(repo, fi, specs, dtypes=dts, binned=True)
            sig = lambda outs: sorted((o.kind, o.exc_type, tuple((repr(v.unit), v.dtype) for v in flat(o.value)) if o.kind == 'return' else ()) for o in outs)  # noqa: E731
            if sig(d_o) != sig(b_o):
                r3.fail(f'{fi.qualname} [{dt_} event coordinate]', loc(fi), {'dense': [str(x) for x in sig(d_o)][:2], 'binned': [str(x) for x in sig(b_o)][:2],
                                                                           'where': [o.where for o in b_o if o.kind == 'raise'][:1]}, key=f'{fq}:{dt_}')

    # the top-level entry points must not write to the data they are given either
    r4b = run.rule('R4b', 'convert / deduce_conversion_graph / conversion_graph write to nothing reachable from their arguments', 3)
    from sa.effects import Effects
    eff = Effects(repo)
    eff.solve()
    for name in ('convert', 'deduce_conversion_graph', 'conversion_graph'):
        cfi = repo.func('core.conversions', name)
        s_ = eff.summaries[cfi.fq]
        written = {t: m for t, m in s_.mutates.items() if t.startswith('p:')}  # (arguments; a memo table of the module is none)
        if written:
            tok, m = sorted(written.items())[0]
            r4b.fail(name, m.where, {'writes_to': sorted(written), 'statement': m.stmt, 'via': m.via}, key=f'core.conversions:{name}')
        else:
            r4b.ok(name)

    # the helpers themselves
    r5 = run.rule('R5', 'elem_unit / elem_dtype / float_dtype / as_float_type read the event buffer of binned operands', 4)
    for name in ('elem_unit', 'elem_dtype', 'float_dtype'):
        fi = repo.func('_utils', name)
        outs = run_kernel(repo, fi, {'var': P(dim='T', taint=True, dtype='float32')}, binned=True)
        ok = len(outs) == 1 and outs[0].kind == 'return' and not events(outs[0], 'binned-unsafe-access')
        val = outs[0].value if outs else None
        if name == 'elem_unit':
            ok = ok and repr(val) == 'u(var)'
        else:
            ok = ok and val == 'float32'
        r5.check(ok, name, loc(fi), {'value_for_binned_float32_operand': repr(val),
                                     'unsafe': [e.detail for o in outs for e in events(o, 'binned-unsafe-access')]}, key=name)
    fi = repo.func('_utils', 'as_float_type')
    outs = run_kernel(repo, fi, {'var': P(dim='L'), 'ref': P(dim='T', taint=True, dtype='float32')}, binned=True)
    ok = len(outs) == 1 and outs[0].kind == 'return' and not events(outs[0], 'binned-unsafe-access') \
        and isinstance(outs[0].value, SVar) and outs[0].value.dtype == 'float32'
    r5.check(ok, 'as_float_type', loc(fi), {'dtype': getattr(outs[0].value, 'dtype', None) if outs else None}, key='as_float_type')
    # positive fixture: the rule must fire on a kernel that reduces over event data
    # what is computed for the events must not depend on what was computed before (transform_coords calls a kernel for the events
    # and again for the bin edges; a user converts bank after bank): every kernel after itself, in binned interpretation, with other
    # units, another precision, the same units again, and the same variables updated in place by their owner
    r7 = run.rule('R7', 'event-data results do not depend on call history (two-call histories of every kernel in one world, binned '
                        'interpretation); no memoised object is handed out', 24)
    from .common import history_free, kernel_histories
    kfis = [fi for _, fi in sorted(kernels.items())]
    history_free(repo, kfis, r7, histories=kernel_histories(repo, kfis, binned=True, cross=False))
    r6 = run.rule('R6', 'self-check: the purity rule fires on a fixture kernel that normalises by wavelength.max()', 1)
    fired = fixture_fires(repo)
    r6.check(fired, 'fixture', 'selftest/fixtures/c06_fixture.py', {'fired': fired}, key='fixture')
    return run


def fixture_fires(repo: Repo) -> bool:
    import ast
    import os

    from sa.load import FuncInfo
    path = os.path.join(os.path.dirname(os.path.dirname(os.path.abspath(__file__))), 'selftest', 'fixtures', 'c06_fixture.py')
    tree = ast.parse(open(path, encoding='utf-8').read())
    fn = next(n for n in tree.body if isinstance(n, ast.FunctionDef))
    fi = FuncInfo('conversion.tof', fn.name, fn)
    outs = run_kernel(repo, fi, {'wavelength': ROLE['wavelength']}, binned=True)
    kinds = {e.kind for o in outs for e in o.events}
    return 'reduction-of-tainted' in kinds and 'binned-unsafe-access' in kinds
