"""Helpers shared by the per-property rule modules."""

from __future__ import annotations

from sa import term as T
from sa.interp import Interp, Opaque, Outcome, SVar
from sa.kernel import P, ROLE, dtype_grid, run_kernel, specs_for
from sa.load import AnalysisError, FuncInfo, Repo, loc
from sa.scipp_model import Model
from sa.term import Mat, Rat, Vec

NOISE = {'math-call', 'unit-conversion'}


def returns(outs: list[Outcome]) -> list[Outcome]:
    return [o for o in outs if o.kind == 'return']


def raises(outs: list[Outcome]) -> list[Outcome]:
    return [o for o in outs if o.kind == 'raise']


def show(v) -> str:
    if isinstance(v, SVar):
        if v.term is None:
            return f'⊤ ({v.why})'
        return T.show(v.term)
    if isinstance(v, dict):
        return '{' + ', '.join(f'{k}: {show(x)}' for k, x in v.items()) + '}'
    if isinstance(v, Rat | Vec | Mat):
        return T.show(v)
    return repr(v)


def term_of(v, fi: FuncInfo):
    """Term of a kernel result or AnalysisError if it is ⊤."""
    if not isinstance(v, SVar):
        raise AnalysisError(f'{fi.fq} returned a non-variable {v!r}')
    if v.term is None:
        raise AnalysisError(f'abstract value of {fi.fq} is unknown (⊤): {v.why}')
    return v.term


def eq_term(a, b) -> bool:
    if type(a) is not type(b):
        return False
    return a.eq(b)


def events(o: Outcome, *kinds):
    return [e for e in o.events if e.kind in kinds]


def evaluate_global(repo: Repo, module: str, name: str):
    """Partial evaluation of a module-level table (e.g. a graph dict)."""
    T.reset()
    it = Interp(repo, Model())
    mi = repo.module(module)
    if name not in mi.assigns:
        raise AnalysisError(f'anchor {module}:{name} (module-level table) not found')
    return it.global_name(name, mi, None)


ORIGINS = ('dspacing', 'energy', 'tof', 'Q', 'wavelength')  # documented start coordinates of graph.tof.elastic


def call_public(repo: Repo, module: str, name: str, **kwargs):
    """Partial evaluation of a public, argument-less-or-concrete factory; returns its single outcome."""
    T.reset()
    it = Interp(repo, Model())
    fi = repo.func(module, name)
    outs = it.run_all(lambda i: i.call_function(fi, [], dict(kwargs)))
    if len(outs) != 1:
        raise AnalysisError(f'{fi.fq}({kwargs}) has {len(outs)} paths for concrete arguments')
    return outs[0]


def elastic_graphs(repo: Repo) -> dict:
    """origin -> graph as handed out by the public factory graph.tof.elastic(start) (origins without a graph raise KeyError)."""
    out = {}
    for origin in ORIGINS:
        o = call_public(repo, 'conversion.graph.tof', 'elastic', start=origin)
        if o.kind == 'raise' and o.exc_type == 'KeyError':
            continue
        if o.kind != 'return' or not isinstance(o.value, dict) or not o.value:
            raise AnalysisError(f'graph.tof.elastic({origin!r}) does not return a graph: {o.kind} {o.exc_type}')
        out[origin] = o.value
    if 'tof' not in out or 'wavelength' not in out:
        raise AnalysisError(f'graph.tof.elastic has no graph for tof / wavelength (found {sorted(out)})')
    return out


def beamline_graph(repo: Repo, scatter: bool) -> dict:
    o = call_public(repo, 'conversion.graph.beamline', 'beamline', scatter=scatter)
    if o.kind != 'return' or not isinstance(o.value, dict) or not o.value:
        raise AnalysisError(f'graph.beamline.beamline(scatter={scatter}) does not return a graph: {o.kind} {o.exc_type}')
    return o.value


# concrete units per physical dimension for the two-call histories (two choices each: a memo table keyed by less than it
# depends on hands the second call the first call's conversion factor)
_HISTORY_UNITS = (
    {'T': 'us', 'L': 'm', 'ENERGY': 'meV', 'ANGLE': 'rad', 'INVL': '1/angstrom', 'ONE': 'dimensionless', 'ACCEL': 'm/s^2', 'FREQ': 'Hz'},
    {'T': 'ms', 'L': 'mm', 'ENERGY': 'J', 'ANGLE': 'deg', 'INVL': '1/nm', 'ONE': 'dimensionless', 'ACCEL': 'mm/ms^2', 'FREQ': 'kHz'},
)


def _summary(v):
    """what a caller can see of a result, as text"""
    if isinstance(v, SVar):
        # (the precisions of the floating-point operations the value went through: a constant kept in single precision by an
        # earlier call shows here, not in the term)
        return ('var', T.show(v.term) if v.term is not None else f'⊤ {v.why}', repr(v.unit), v.dtype,
                tuple(sorted({str(dt) for _, _, dt in v.hist})))
    if isinstance(v, dict):
        return ('dict', tuple((k, _summary(x)) for k, x in v.items()))
    if isinstance(v, list | tuple):
        return (type(v).__name__, tuple(_summary(x) for x in v))
    return ('value', repr(v))


def kernel_histories(repo: Repo, fis, binned: bool = False, cross: bool = True):
    """Two-call histories of the kernels, interpreted in one world each (sa.kernel.run_history): every kernel after every kernel
    (first units), and every kernel after itself with other units, another precision, and the same units again.  A history is a
    problem when what the second call returns or raises differs from what it does in a fresh interpreter.
    -> (problems per second function fq, number of histories)"""
    from sa.kernel import EARLIER_CALL_RAISED, run_history
    from sa.units import Unit

    def config(fi, which, f32=False):
        specs = {}
        for name, spec in specs_for(fi).items():
            unit = Unit.named(_HISTORY_UNITS[which][spec.dim]) if spec.dim in _HISTORY_UNITS[which] else None
            specs[name] = P(kind=spec.kind, dim=spec.dim, dtype=spec.dtype, positive=spec.positive, taint=spec.taint, unit=unit, data=spec.data)
        dtypes = {n: 'float32' for n, sp in specs.items() if sp.kind == 'scalar' and sp.data} if f32 else {}
        return specs, dtypes

    def observe(outs):
        seen = set()
        for o in outs:
            if o.kind == 'return' and o.value is EARLIER_CALL_RAISED:
                continue
            seen.add((o.kind, o.exc_type, _summary(o.value) if o.kind == 'return' else None))
        return seen

    fresh_cache: dict = {}

    def fresh(fi, cfg_key, cfg, suffix="'"):
        if (fi.fq, cfg_key, suffix) not in fresh_cache:
            fresh_cache[(fi.fq, cfg_key, suffix)] = observe(run_history(repo, [(fi, cfg[0], cfg[1], suffix)], binned, keep_table=True))
        return fresh_cache[(fi.fq, cfg_key, suffix)]

    problems: dict = {}
    n = 0
    fis = list(fis)
    T.reset()  # one symbol table for all runs: the texts of equal terms are equal
    SVar._next = 0
    histories = []
    for fb in fis:
        for fa in (fis if cross else [fb]):
            histories.append((fa, (0, False), fb, (0, False)))
        for ca, cb in (((0, False), (1, False)), ((1, False), (0, False)), ((0, False), (0, True)), ((0, True), (0, False)),
                       ((0, True), (1, True)), ((1, True), (0, True))):
            histories.append((fb, ca, fb, cb))
    for fb in fis:
        histories.append((fb, (0, False), fb, (0, False), 'same objects, updated in place'))
        histories.append((fb, (0, False), fb, (0, False), 'new objects holding the same values'))
    for fa, ca, fb, cb, *how in histories:
        first, second = config(fa, *ca), config(fb, *cb)
        sfx = '' if how == ['new objects holding the same values'] else "'"
        want = fresh(fb, cb, second, sfx)
        got = observe(run_history(repo, [(fa, first[0], first[1], ''), (fb, second[0], second[1], sfx, *how)], binned, keep_table=True))
        n += 1
        # (with the same values again the decisions of the first call hold in the second: the second call shows those outcomes of a
        # fresh interpreter that are consistent with the first call having returned)
        same = got <= want and bool(got) if sfx == '' else got == want
        if not same:
            problems.setdefault(fb.fq, []).append({
                'history': [f'{fa.qualname}(units {ca[0] + 1}{", float32 data" if ca[1] else ""})',
                            f'{fb.qualname}(units {cb[0] + 1}{", float32 data" if cb[1] else ""}' + (f'; {how[0]}' if how else '') + ')'],
                'second_call_in_a_fresh_interpreter': sorted(map(repr, want))[:2], 'second_call_after_the_first': sorted(map(repr, got))[:2]})
    return problems, n


def history_free(repo: Repo, fis, rule, eff=None, histories=None, decided_elsewhere=()):
    """Rule helper: results do not depend on call history.
    (a) Effects: which functions write module-level state, directly or through callees, or hand out a memoised object.
    (b) With `histories` (problems per fq, count - see kernel_histories): a memo table is no violation by itself; whether it is
        keyed by everything its entries depend on is decided by interpreting two-call histories in one world.  Without them a
        write to module-level state is reported as such."""
    from sa.effects import Effects
    if eff is None:
        eff = Effects(repo)
        eff.solve()
    problems, n_hist = histories if histories is not None else ({}, 0)
    for fi in fis:
        s = eff.summaries[fi.fq]
        g = {t: m for t, m in s.mutates.items() if t.startswith('g:')}
        for other in decided_elsewhere:
            # module state that a callee writes and whose use is decided by that callee's histories
            for t in eff.summaries[other.fq].mutates:
                g.pop(t, None)
        cached = sorted(t for t in s.ret.cont if t.startswith('g:'))
        if problems.get(fi.fq):
            first = problems[fi.fq][0]
            rule.fail(fi.qualname, loc(fi), {'result_depends_on_call_history': first, 'histories_with_a_different_result': len(problems[fi.fq]),
                                             'module_state_written': sorted(g)}, key=f'{fi.fq}:history')
        elif g and histories is None:
            tok, m = sorted(g.items())[0]
            rule.fail(fi.qualname, m.where, {'writes_module_state': sorted(g), 'statement': m.stmt, 'via': m.via},
                      key=f'{fi.fq}:module-state')
        elif cached:
            rule.fail(fi.qualname, loc(fi), {'returns_shared_object': cached}, key=f'{fi.fq}:shared-result')
        else:
            rule.ok(fi.qualname, {'module_state_written': sorted(g), 'two_call_histories': n_hist} if histories is not None else None)
    return eff


def callee_receiving(repo: Repo, fi: FuncInfo, param: str) -> FuncInfo | None:
    """The function or method of the package that `fi` hands its parameter `param` to (the first such call in the body):
    a private helper found by its role in a public function, whatever it is called."""
    import ast
    for node in ast.walk(fi.node):
        if not isinstance(node, ast.Call):
            continue
        passed = [a for a in node.args if isinstance(a, ast.Name) and a.id == param] + \
                 [k.value for k in node.keywords if isinstance(k.value, ast.Name) and k.value.id == param]
        if not passed:
            continue
        f = node.func
        if isinstance(f, ast.Attribute) and isinstance(f.value, ast.Name) and f.value.id == 'self' and fi.cls is not None:
            it = Interp(repo, Model())
            m = it.find_method(fi.cls, f.attr)
            if m is not None:
                return m
        elif isinstance(f, ast.Name):
            got = repo._follow(fi.module, f.id)
            if got is not None and got[0] == 'func':
                return got[1]
    return None


def private_helper(repo: Repo, module: str, name: str, params) -> FuncInfo | None:
    """A private helper, if it exists with the interface (parameter names, in order) the helper-level rule was written for; None
    otherwise - the rule is then decided through the public entry points only (helpers come, go and change their signatures)."""
    try:
        fi = repo.func(module, name)
    except AnalysisError:
        return None
    a = fi.node.args
    have = [x.arg for x in a.posonlyargs + a.args + a.kwonlyargs if x.arg not in ('self', 'cls')]
    return fi if have == list(params) else None
