"""Helpers shared by the per-property rule modules."""

from __future__ import annotations

from sa import term as T
from sa.interp import Interp, Opaque, Outcome, SVar
from sa.kernel import P, ROLE, dtype_grid, run_kernel, specs_for
from sa.load import AnalysisError, FuncInfo, Repo, loc
from sa.scipp_model import Model
from sa.term import Mat, Rat, Vec

NOISE = {'math-call', 'unit-conversion'}


def returns(outs: list[Outcome]) -> list[Outcome]:
    return [o for o in outs if o.kind == 'return']


def raises(outs: list[Outcome]) -> list[Outcome]:
    return [o for o in outs if o.kind == 'raise']


def show(v) -> str:
    if isinstance(v, SVar):
        if v.term is None:
            return f'⊤ ({v.why})'
        return T.show(v.term)
    if isinstance(v, dict):
        return '{' + ', '.join(f'{k}: {show(x)}' for k, x in v.items()) + '}'
    if isinstance(v, Rat | Vec | Mat):
        return T.show(v)
    return repr(v)


def term_of(v, fi: FuncInfo):
    """Term of a kernel result or AnalysisError if it is ⊤."""
    if not isinstance(v, SVar):
        raise AnalysisError(f'{fi.fq} returned a non-variable {v!r}')
    if v.term is None:
        raise AnalysisError(f'abstract value of {fi.fq} is unknown (⊤): {v.why}')
    return v.term


def eq_term(a, b) -> bool:
    if type(a) is not type(b):
        return False
    return a.eq(b)


def events(o: Outcome, *kinds):
    return [e for e in o.events if e.kind in kinds]


def evaluate_global(repo: Repo, module: str, name: str):
    """Partial evaluation of a module-level table (e.g. a graph dict)."""
    T.reset()
    it = Interp(repo, Model())
    mi = repo.module(module)
    if name not in mi.assigns:
        raise AnalysisError(f'anchor {module}:{name} (module-level table) not found')
    return it.global_name(name, mi, None)


ORIGINS = ('dspacing', 'energy', 'tof', 'Q', 'wavelength')  # documented start coordinates of graph.tof.elastic


def call_public(repo: Repo, module: str, name: str, **kwargs):
    """Partial evaluation of a public, argument-less-or-concrete factory; returns its single outcome."""
    T.reset()
    it = Interp(repo, Model())
    fi = repo.func(module, name)
    outs = it.run_all(lambda i: i.call_function(fi, [], dict(kwargs)))
    if len(outs) != 1:
        raise AnalysisError(f'{fi.fq}({kwargs}) has {len(outs)} paths for concrete arguments')
    return outs[0]


def elastic_graphs(repo: Repo) -> dict:
    """origin -> graph as handed out by the public factory graph.tof.elastic(start) (origins without a graph raise KeyError)."""
    out = {}
    for origin in ORIGINS:
        o = call_public(repo, 'conversion.graph.tof', 'elastic', start=origin)
        if o.kind == 'raise' and o.exc_type == 'KeyError':
            continue
        if o.kind != 'return' or not isinstance(o.value, dict) or not o.value:
            raise AnalysisError(f'graph.tof.elastic({origin!r}) does not return a graph: {o.kind} {o.exc_type}')
        out[origin] = o.value
    if 'tof' not in out or 'wavelength' not in out:
        raise AnalysisError(f'graph.tof.elastic has no graph for tof / wavelength (found {sorted(out)})')
    return out


def beamline_graph(repo: Repo, scatter: bool) -> dict:
    o = call_public(repo, 'conversion.graph.beamline', 'beamline', scatter=scatter)
    if o.kind != 'return' or not isinstance(o.value, dict) or not o.value:
        raise AnalysisError(f'graph.beamline.beamline(scatter={scatter}) does not return a graph: {o.kind} {o.exc_type}')
    return o.value


def history_free(repo: Repo, fis, rule, eff=None):
    """Rule helper: the given functions write to no module-level state, directly or
    through callees (a memo table filled by the first caller makes later results
    depend on call history), and hand out no memoised object."""
    from sa.effects import Effects
    if eff is None:
        eff = Effects(repo)
        eff.solve()
    for fi in fis:
        s = eff.summaries[fi.fq]
        g = {t: m for t, m in s.mutates.items() if t.startswith('g:')}
        cached = sorted(t for t in s.ret.cont if t.startswith('g:'))
        if g:
            tok, m = sorted(g.items())[0]
            rule.fail(fi.qualname, m.where, {'writes_module_state': sorted(g), 'statement': m.stmt, 'via': m.via},
                      key=f'{fi.fq}:module-state')
        elif cached:
            rule.fail(fi.qualname, loc(fi), {'returns_shared_object': cached}, key=f'{fi.fq}:shared-result')
        else:
            rule.ok(fi.qualname)
    return eff


def callee_receiving(repo: Repo, fi: FuncInfo, param: str) -> FuncInfo | None:
    """The function or method of the package that `fi` hands its parameter `param` to (the first such call in the body):
    a private helper found by its role in a public function, whatever it is called."""
    import ast
    for node in ast.walk(fi.node):
        if not isinstance(node, ast.Call):
            continue
        passed = [a for a in node.args if isinstance(a, ast.Name) and a.id == param] + \
                 [k.value for k in node.keywords if isinstance(k.value, ast.Name) and k.value.id == param]
        if not passed:
            continue
        f = node.func
        if isinstance(f, ast.Attribute) and isinstance(f.value, ast.Name) and f.value.id == 'self' and fi.cls is not None:
            it = Interp(repo, Model())
            m = it.find_method(fi.cls, f.attr)
            if m is not None:
                return m
        elif isinstance(f, ast.Name):
            got = repo._follow(fi.module, f.id)
            if got is not None and got[0] == 'func':
                return got[1]
    return None


def private_helper(repo: Repo, module: str, name: str, params) -> FuncInfo | None:
    """A private helper, if it exists with the interface (parameter names, in order) the helper-level rule was written for; None
    otherwise - the rule is then decided through the public entry points only (helpers come, go and change their signatures)."""
    try:
        fi = repo.func(module, name)
    except AnalysisError:
        return None
    a = fi.node.args
    have = [x.arg for x in a.posonlyargs + a.args + a.kwonlyargs if x.arg not in ('self', 'cls')]
    return fi if have == list(params) else None
