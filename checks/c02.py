"""C02 — convert() succeeds iff the target is derivable, and matches the formulas."""

from __future__ import annotations

import itertools

from sa import term as T
from sa.interp import FuncRef, Interp, RaiseSignal
from sa.load import AnalysisError, Repo, loc, where_of
from sa.report import Run
from sa.scipp_model import Model
from spec import convert_spec as S


def params_of(ref: FuncRef) -> list[str]:
    a = ref.fi.node.args
    return [p.arg for p in a.posonlyargs + a.args + a.kwonlyargs]


class CoordStub:
    def __init__(self, aligned=True):
        self.aligned = aligned


class DataStub:
    """Trusted model of a DataArray/Dataset for scipp.transform_coords (DESIGN 2.3 e):
    a present coordinate is used as it is; otherwise the graph entry producing the
    name is evaluated from its parameters, recursively; a name that is neither
    present nor produced raises KeyError(name)."""

    def __init__(self, coords, unaligned=(), _root=None):
        # name -> coordinate; alignment is a flag of the coordinate and must play no role in what is derivable
        self.coords = {c: CoordStub(c not in unaligned) for c in sorted(coords)}
        self.used: list[str] = []
        self.graph_used = None
        # copies and reduced views made by the package report to the object that was supplied
        self.root = _root if _root is not None else self
        if _root is None:
            self.supplied = set(coords)
            self.recomputed: set = set()

    def _derived(self, coords):
        d = DataStub(coords, [c for c, v in self.coords.items() if not v.aligned and c in coords], _root=self.root)
        return d

    def copy(self, deep=True):
        return self._derived(set(self.coords))

    def drop_coords(self, names):
        names = [names] if isinstance(names, str) else list(names)
        missing = [n for n in names if n not in self.coords]
        if missing:
            raise RaiseSignal('KeyError', None, 'DataArray.drop_coords (model)', (missing[0],))
        return self._derived(set(self.coords) - set(names))

    def transform_coords(self, target, graph=None, **kw):
        if not isinstance(graph, dict):
            raise AnalysisError('transform_coords was not given a graph dict')
        self.graph_used = graph
        done: set = set()

        def go(name, stack):
            if name in self.coords or name in done:
                return
            for key, fn in graph.items():
                names = key if isinstance(key, tuple) else (key,)
                if name in names:
                    if name in stack:
                        break
                    if not isinstance(fn, FuncRef):
                        raise AnalysisError(f'graph entry {key!r} is not a function of the package')
                    for p in params_of(fn):
                        go(p, stack | {name})
                    self.used.append(fn.fi.qualname)
                    done.update(names)
                    return
            raise RaiseSignal('KeyError', None, 'scipp.transform_coords (model)', (name,))

        go(target, frozenset())
        # a coordinate the caller supplied must be used as it is, never recomputed from others
        self.root.recomputed |= done & self.root.supplied
        self.root.used.extend(u for u in self.used if self is not self.root)
        if self.root.graph_used is None:
            self.root.graph_used = graph
        return ('converted', target)


def call(repo, it: Interp, fname: str, *args):
    fi = repo.func('core.conversions', fname)
    outs = it.run_all(lambda i: i.call_function(fi, list(args), {}))
    if len(outs) != 1:
        raise AnalysisError(f'{fname}{args[1:]!r}: {len(outs)} paths for a concrete configuration')
    return outs[0]


def graph_signature(g) -> tuple:
    return tuple(sorted((str(k), v.fi.fq if isinstance(v, FuncRef) else repr(v)) for k, v in g.items()))


def run(tier: str) -> Run:
    run = Run('C02', tier, 'other',
              'core/conversions.py and the graph factories are partially evaluated in the abstract '
              'interpreter for concrete (origin, target, scatter) and a data object abstracted to its '
              'set of coordinate names; kernels stay uninterpreted and scipp.transform_coords is the '
              'three-line model of DESIGN 2.3(e).  Decided: the graph reported is the graph used; only '
              'RuntimeError leaves convert(); the mode decision table; the coordinate that selected '
              'the mode is consumed by the selected kernel; success/failure of every configuration '
              'equals derivability under clauses written from the documented formulas; the missing '
              'coordinate named in the message is the one the model reports.  Values are covered by '
              'the one-step soundness rules of C01/C03/C05.')
    repo = Repo()
    run.analysed = {'modules': ['core.conversions', 'conversion.graph.tof', 'conversion.graph.beamline'],
                    'digest': repo.digest.hexdigest()}
    run.trusted = ['model of scipp.transform_coords (checks/c02.py:DataStub)', 'spec/convert_spec.py', 'sa/interp.py']
    T.reset()
    it = Interp(repo, Model())
    targets = S.all_targets()

    # ---- R4 decision table -------------------------------------------------
    r4 = run.rule('R4', 'energy-mode decision table (raise / elastic / direct / indirect)', 16)
    for have in ((), ('incident_energy',), ('final_energy',), ('incident_energy', 'final_energy')):
        for origin, target in (('tof', 'energy_transfer'), ('tof', 'energy'), ('energy', 'wavelength'), ('tof', 'wavelength')):
            data = DataStub({origin, *have})
            # the mode decided is read off the graph that deduce_conversion_graph reports: it equals conversion_graph(..., mode)
            o = call(repo, it, 'deduce_conversion_graph', data, origin, target, True)
            want = S.expected_mode(set(have), origin, target)
            if o.kind == 'return':
                modes = []
                for m in ('elastic', 'direct_inelastic', 'indirect_inelastic'):
                    try:
                        g = call(repo, it, 'conversion_graph', origin, target, True, m)
                    except AnalysisError:
                        continue
                    if g.kind == 'return' and graph_signature(g.value) == graph_signature(o.value):
                        modes.append(m)
                got = want if want in modes else (modes[0] if modes else 'a graph of no mode')
            else:
                got = 'error' if o.exc_type == 'RuntimeError' else f'raises {o.exc_type}'
            inst = f'mode[{origin}->{target}; energies={list(have)}]'
            r4.check(got == want, inst, where_of(repo, 'core.conversions', '_deduce_energy_mode', 'deduce_conversion_graph', 'convert'),
                     {'decided': got, 'documented': want}, key=inst)

    # ---- R1 / R2 / R3 / R5 over configurations ---------------------------------
    r1 = run.rule('R1', 'the graph handed to transform_coords is the one deduce_conversion_graph reports, and equals conversion_graph(..., deduced mode)', 100)
    r2 = run.rule('R2', 'convert() returns or raises RuntimeError, nothing else', 100)
    r3 = run.rule('R3', 'the energy coordinate that selected the mode is consumed by the selected kernel', 2)
    r5 = run.rule('R5', 'convert() succeeds iff the target is derivable from the supplied coordinates under the documented clauses; the missing coordinate is named', 100)
    cfi = repo.func('core.conversions', 'convert')
    triples = list(itertools.product(S.ORIGINS, targets, (True, False)))
    import concurrent.futures as cf
    import os
    with cf.ProcessPoolExecutor(max_workers=min(16, os.cpu_count() or 4)) as ex:
        results = list(ex.map(_eval_triple_worker, [(t, tier) for t in triples], chunksize=4 if tier == 'thorough' else 2))
    n_cfg = 0
    mode_seen = set()
    for (origin, target, scatter), res in zip(triples, results, strict=True):
        n_cfg += res['n_sub']
        inst = f"{origin}->{target} scatter={scatter} ({res['n_sub']} coordinate subsets)"
        key = f'{origin}->{target}:{scatter}'
        r1.check(not res['bad1'], inst, loc(cfi), {'mismatches': res['bad1'][:2]}, key='R1:' + key)
        r2.check(not res['bad2'], inst, loc(cfi), {'escaping_exceptions': res['bad2'][:2]}, key='R2:' + key)
        r5.check(not res['bad5'], inst, loc(cfi), {'disagreements': res['bad5'][:2], 'n_disagreements': len(res['bad5'])}, key='R5:' + key)
    # R3: explicit, so that the instances exist whatever the mode logic does
    for sel, other, want_k in (('incident_energy', 'final_energy', 'energy_transfer_direct_from_tof'),
                                 ('final_energy', 'incident_energy', 'energy_transfer_indirect_from_tof')):
        data = DataStub({'tof', 'L1', 'L2', sel})
        o = call(repo, it, 'convert', data, 'tof', 'energy_transfer', True)
        kern = [u for u in data.used if 'energy_transfer' in u]
        kfi = repo.func('conversion.tof', want_k)
        names = [p.arg for p in kfi.node.args.kwonlyargs + kfi.node.args.args]
        r3.check(o.kind == 'return' and kern == [want_k] and sel in names and other not in names, f'selected by {sel}',
                 loc(kfi), {'convert': o.kind if o.kind == 'return' else f'raises {o.exc_type}', 'kernel_used': kern,
                            'its_parameters': names}, key=f'R3:{sel}')
    # R6: the graph for a request does not depend on the requests made before it
    r6 = run.rule('R6', 'the graph selected for (origin, target, scatter, mode) does not depend on earlier requests: two-request histories of '
                        'conversion_graph in one world (module-level tables and caches persist) give the graph of a fresh interpreter', 8)
    gfi = repo.func('core.conversions', 'conversion_graph')
    reqs = [(o_, t_, sc_, m_) for o_ in S.ORIGINS for sc_ in (True, False)
            for t_, m_ in (('L2', 'elastic'), ('two_theta', 'elastic'), ('wavelength', 'elastic'), ('dspacing', 'elastic'), ('Q', 'elastic'),
                           ('energy_transfer', 'direct_inelastic'), ('energy_transfer', 'indirect_inelastic'))]

    def observe(i, req):
        from sa.interp import RaiseSignal
        try:
            g = i.call_function(gfi, list(req), {})
        except RaiseSignal as r_:
            return ('raise', r_.exc_type)
        return ('return', graph_signature(g) if isinstance(g, dict) else repr(g))
    fresh = {}
    for req in reqs:
        o_ = it.run_all(lambda i, req=req: observe(i, req))
        fresh[req] = [x.value for x in o_]
    n_hist = 0
    per_origin: dict = {}
    for first in reqs:
        for second in reqs:
            if first[2] != second[2] and first[0] != second[0]:
                continue  # (histories within one origin or one scatter mode; the others add nothing a table could be keyed by)
            n_hist += 1
            o_ = it.run_all(lambda i, first=first, second=second: (observe(i, first), i.end_of_call(), observe(i, second))[-1])
            got = [x.value for x in o_]
            if got != fresh[second]:
                per_origin.setdefault((second[0], second[2]), []).append({'history': [list(map(str, first)), list(map(str, second))],
                                                                         'fresh': str(fresh[second])[:200], 'after_the_first': str(got)[:200]})
    for o_ in S.ORIGINS:
        for sc_ in (True, False):
            bad = per_origin.get((o_, sc_), [])
            r6.check(not bad, f'origin={o_} scatter={sc_}', loc(gfi), {'histories_with_another_graph': len(bad), 'first': bad[:1], 'histories': n_hist},
                     key=f'R6:{o_}:{sc_}')
    run.extra['configurations_enumerated'] = n_cfg
    run.exhaustive = tier == 'thorough'
    return run


_WORKER = {}


def _eval_triple_worker(arg):
    triple, tier = arg
    if 'repo' not in _WORKER:
        _WORKER['repo'] = Repo()
        T.reset()
        _WORKER['it'] = Interp(_WORKER['repo'], Model())
    return eval_triple(_WORKER['repo'], _WORKER['it'], triple, tier)


def eval_triple(repo, it, triple, tier):
    origin, target, scatter = triple
    leaves_all = S.SUBSET_COORDS
    extras = ('pulse_time', 'u_matrix', 'b_matrix', 'sample_rotation')
    mode_checked: set = set()
    r3_out: list = []
    # subsets: quick = cone of influence of the target (monotone closure makes the
    # other coordinates irrelevant except the two energies, which are always varied);
    # thorough = all 2^11 subsets
    cone = set()
    for mode in ('elastic', 'direct_inelastic', 'indirect_inelastic'):
        if mode != 'elastic' and target != 'energy_transfer':
            continue
        cl = S.clauses(origin, target, scatter, mode)
        stack = [target]
        while stack:
            n = stack.pop()
            for p in cl.get(n, ()):
                if p not in cone:
                    cone.add(p)
                    stack.append(p)
    # the target itself may be supplied (a supplied coordinate takes precedence, also where the graph has no rule for it)
    vary = [c for c in leaves_all if c in cone or c == target or c in ('incident_energy', 'final_energy')]
    if tier == 'thorough':
        vary = list(leaves_all)
    fixed_extra = [e for e in extras if e in cone]
    bad1, bad2, bad5 = [], [], []
    graph_cache: dict = {}
    n_sub = 0
    for r in range(len(vary) + 1):
        for sub in itertools.combinations(vary, r):
            n_sub += 1
            have = {origin, *sub, *fixed_extra}
            data = DataStub(have)
            o = call(repo, it, 'convert', data, origin, target, scatter)
            mode = S.expected_mode(have, origin, target)
            if mode == 'error':
                want_ok, miss = False, None
            else:
                want_ok, miss = S.derivable(target, have, S.clauses(origin, target, scatter, mode))
            # the same coordinates with the energies flagged as unaligned (left over from an earlier conversion)
            en = {'incident_energy', 'final_energy'} & have
            if en:
                o_u = call(repo, it, 'convert', DataStub(have, unaligned=en), origin, target, scatter)
                if (o_u.kind, o_u.exc_type) != (o.kind, o.exc_type):
                    bad5.append({'coords': sorted(sub), 'problem': 'outcome depends on the alignment flag of the energy coordinates',
                                 'aligned': (o.kind, o.exc_type), 'unaligned': (o_u.kind, o_u.exc_type)})
            # R2
            if o.kind == 'raise' and o.exc_type != 'RuntimeError':
                bad2.append({'coords': sorted(sub), 'raises': o.exc_type, 'where': o.where, 'args': [str(a) for a in getattr(o, 'exc_args', ())]})
                continue
            got_ok = o.kind == 'return'
            # R5
            if got_ok and data.recomputed:
                bad5.append({'coords': sorted(sub), 'problem': 'a supplied coordinate does not take precedence: it is recomputed from other coordinates',
                             'recomputed': sorted(data.recomputed)})
            elif got_ok != want_ok:
                bad5.append({'coords': sorted(sub), 'convert': 'returns' if got_ok else 'RuntimeError', 'documented': 'derivable' if want_ok else f'not derivable (missing {miss})', 'mode': mode})
            elif not got_ok and mode != 'error':
                msg = ' '.join(str(a) for a in getattr(o, 'exc_args', ()))
                if miss == target:
                    named = 'No viable conversion' in msg
                else:
                    named = f"'{miss}'" in msg and 'Missing coordinate' in msg
                if not named:
                    bad5.append({'coords': sorted(sub), 'message': msg[:120], 'expected_missing': miss})
            # R1
            if mode != 'error':
                ck = (mode, 'incident_energy' in have, 'final_energy' in have)
                if ck not in graph_cache:
                    graph_cache[ck] = (call(repo, it, 'deduce_conversion_graph', DataStub(have), origin, target, scatter),
                                       call(repo, it, 'conversion_graph', origin, target, scatter, mode))
                rep, cg = graph_cache[ck]
                if data.graph_used is None or rep.kind != 'return' or cg.kind != 'return':
                    if got_ok or data.graph_used is not None:
                        bad1.append({'coords': sorted(sub), 'problem': 'graph not reported'})
                elif not (graph_signature(data.graph_used) == graph_signature(rep.value) == graph_signature(cg.value)):
                    bad1.append({'coords': sorted(sub), 'used': graph_signature(data.graph_used)[:3], 'reported': graph_signature(rep.value)[:3]})
                elif data.graph_used is rep.value:
                    pass
            # R3
            if got_ok and target == 'energy_transfer':
                kern = [u for u in data.used if 'energy_transfer' in u]
                want_k = 'energy_transfer_direct_from_tof' if mode == 'direct_inelastic' else 'energy_transfer_indirect_from_tof'
                inst3 = f'{mode}'
                if inst3 not in mode_checked:
                    mode_checked.add(inst3)
                    kfi = repo.func('conversion.tof', want_k)
                    sel = 'incident_energy' if mode == 'direct_inelastic' else 'final_energy'
                    other = 'final_energy' if mode == 'direct_inelastic' else 'incident_energy'
                    names = [p.arg for p in kfi.node.args.kwonlyargs + kfi.node.args.args]
                    r3_out.append((inst3, kern == [want_k] and sel in names and other not in names, loc(kfi),
                                   {'kernel_used': kern, 'its_parameters': names, 'selecting_coordinate': sel}))
    return {'n_sub': n_sub, 'bad1': bad1, 'bad2': bad2, 'bad5': bad5, 'r3': r3_out}
