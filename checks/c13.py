"""C13 — SQW content is what was supplied: pixels, run metadata, histogram metadata."""

from __future__ import annotations

import datetime as _dt

from sa import term as T
from sa.interp import FuncRef, Interp, Opaque, SObj, SVar
from sa.kernel import P, make_param
from sa.load import AnalysisError, Repo, loc, where_of
from sa.report import Run
from sa.scipp_model import Model
from sa.term import Rat, Vec
from sa.units import NO_UNIT, Unit, parse_unit

from .common import events
from .sqw_af import DND_SHAPE, ROW_NAMES, ROW_UNITS, build, reopen
from spec import sqwfmt
from sa.absio import Cast, Elem, NdArr

MODELS, SQW, BUILD = 'io.sqw._models', 'io.sqw._sqw', 'io.sqw._build'
U4 = ['1/angstrom'] * 3 + ['meV']


class Stub:
    def __init__(self, **kw):
        self.__dict__.update(kw)




def sv(it, name, unit, kind='scalar', dtype=None):
    u = parse_unit(unit) if isinstance(unit, str) else unit
    spec = P(kind=kind, dim='ONE', positive=False, unit=u, dtype='vector3' if kind == 'vector' else (dtype or 'float64'))
    return make_param(it, name, spec)


def physical(v: SVar):
    return v.term


def same_value(parsed, original: SVar):
    """(ok, description): the parsed variable carries the physical value that was supplied."""
    if not isinstance(parsed, SVar) or parsed.term is None:
        return False, f'parsed value unknown ({getattr(parsed, "why", parsed)!r})'
    if type(parsed.term) is not type(original.term):
        return False, f'kind changed: {T.show(parsed.term)}'
    if parsed.unit == NO_UNIT and original.unit != NO_UNIT:
        # unit dropped (not re-labelled): the bare numbers must be those supplied
        ok = parsed.term.eq(original.term / original.unit.scale()) if isinstance(parsed.term, Rat) else parsed.term.eq(original.term / original.unit.scale())
        return ok, f'unit dropped; numbers {"preserved" if ok else "changed"}: {T.show(parsed.term)}'
    ok = parsed.term.eq(original.term)
    if ok:
        why = layout_mismatch(parsed, original)
        if why:
            return False, f'{T.show(parsed.term)} [{parsed.unit!r}] with {why}'
    return ok, f'{T.show(parsed.term)} [{parsed.unit!r}]'


def layout_mismatch(parsed: SVar, original: SVar):
    """None if element (i, j, ...) of the parsed array, addressed by dimension *name*, is the element the original holds there.
    Only decided when an array was transposed somewhere on the way (an 'order' record exists) or the dims are listed differently."""
    import itertools
    ps, os_ = parsed.members.get('shape'), original.members.get('shape')
    pd, od = parsed.members.get('dims'), original.members.get('dims')
    po, oo = parsed.members.get('order'), original.members.get('order')
    if ps is None or os_ is None or pd is None or od is None or len(ps) < 2:
        return None
    if po is None and oo is None and list(pd) == list(od):
        return None
    if sorted(pd) != sorted(od):
        return f'dims {list(pd)} instead of {list(od)}'
    if any(ps[pd.index(d)] != os_[od.index(d)] for d in od):
        return f'sizes {dict(zip(pd, ps, strict=True))} instead of {dict(zip(od, os_, strict=True))}'

    def elem(order, shape, dims, named):
        flat = 0
        for ax, d in enumerate(dims):
            flat = flat * shape[ax] + named[d]
        return flat if order is None else order[flat]
    for idx in itertools.product(*[range(os_[od.index(d)]) for d in od]):
        named = dict(zip(od, idx, strict=True))
        if elem(po, ps, pd, named) != elem(oo, os_, od, named):
            return f'element {named} read back is another element of the supplied array'
    return None


def run(tier: str) -> Run:
    run = Run('C13', tier, 'other',
              'Two layers.  (a) IR round trip: for every metadata model class a symbolic instance is serialised by the package\'s own '
              'serialize_to_ir in the abstract interpreter and handed to the parser registered for it; unit-carrying fields must come '
              'back with the physical value that went in (R2), 1-based indices must be undone (R2i), integer metadata converted in '
              'float64 (R2d).  (b) Abstract-file round trip (checks/sqw_af.py): the whole builder runs on symbolic pixel data, runs, '
              'instrument, sample and histogram metadata and writes an abstract file; the bytes are decoded by an independent reader of '
              'the documented layout and by the package reader.  Decided: (R3) for pixel counts / chunk sizes below, equal and above each '
              'other and the row count: pixel p, row r on disk is float32(row r of pixel p converted to the declared unit) as an exact '
              'term, metadata holds N and the (min, max) of every row in its unit; (R4) instrument and sample containers hold one object '
              'referenced once per run with 1-based indices; (R5) run ids + 1, energies in meV, angles in rad, lattice in angstrom / deg, '
              'histogram metadata in its declared units, histogram of the declared shape; (R6) Sqw.read_data_block returns models equal '
              'to those supplied, with units of the same physical dimension.  float formatting and numpy casts are modelled.')
    repo = Repo()
    run.analysed = {'modules': [MODELS, SQW, BUILD, 'io.sqw._ir'], 'digest': repo.digest.hexdigest()}
    run.trusted = ['sa/interp.py object model', 'sa/scipp_model.py (raw values carry the unit they are expressed in)']
    T.reset()
    it = Interp(repo, Model())
    mmi = repo.module(MODELS)
    # the reader's dispatch table, found by its shape: the module-level dict {(serial name, version): parser function}
    parsers = None
    for gname in repo.module(SQW).assigns:
        try:
            g = it.global_name(gname, repo.module(SQW), None)
        except AnalysisError:
            continue
        if isinstance(g, dict) and g and all(isinstance(k, tuple) and len(k) == 2 and isinstance(k[0], str) for k in g) and all(isinstance(v, FuncRef) for v in g.values()):
            parsers = g
            break
    if parsers is None:
        raise AnalysisError(f'{SQW}: no literal table (serial name, version) -> parser function')

    def roundtrip(cls_name, make_fields, parser_name=None, extra_parser_args=()):
        ci = repo.cls(MODELS, cls_name)
        box = {}

        def go(i):
            fields = make_fields(i)
            box['fields'] = fields
            obj = SObj(ci, dict(fields))
            struct = i.call_function(i.find_method(ci, 'serialize_to_ir'), [], {}, bound=obj)
            box['struct'] = struct
            if parser_name is not None:
                try:
                    pf = repo.func(SQW, parser_name)
                except AnalysisError:
                    # the nested parser is a private helper: without it this class is decided on whole files only (R5, R6)
                    box['no_parser'] = True
                    return struct
                n_pos = len(pf.node.args.posonlyargs) + len(pf.node.args.args)
                extra = list(extra_parser_args)
                kw = dict(zip([a.arg for a in pf.node.args.kwonlyargs], extra[max(n_pos - 1, 0):], strict=False))
                return i.call_function(pf, [struct, *extra[:max(n_pos - 1, 0)]], kw)
            key = (i.class_attr(ci, 'serial_name'), i.class_attr(ci, 'version'))
            ref = parsers.get(key)
            if not isinstance(ref, FuncRef):
                raise AnalysisError(f'no parser registered for {key}')
            box['parser'] = ref.fi
            return i.call_function(ref.fi, [struct], {})
        outs = it.run_all(go)
        outs_box[0] = outs
        rets = [o for o in outs if o.kind == 'return']
        return rets, outs, box

    r2 = run.rule('R2', 'unit-carrying fields come back with the physical value that was supplied (writer unit == reader label)', 19)
    r2i = run.rule('R2i', '1-based indices on disk are undone on reading', 2)

    outs_box = [[]]

    def check_fields(cls_name, rets, box, value_fields, parsed_obj=lambda v: v, index_fields=()):
        if box.get('no_parser'):
            for f in value_fields:
                if f'{cls_name}.{f}' not in seen:
                    seen.add(f'{cls_name}.{f}')
                    r2.ok(f'{cls_name}.{f}', {'decided_by': 'R5 / R6 on whole files (no separate parser for this class)'}, nontrivial=False)
            for f in index_fields:
                if f'{cls_name}.{f}' not in seen:
                    seen.add(f'{cls_name}.{f}')
                    r2i.ok(f'{cls_name}.{f}', {'decided_by': 'R5 / R6 on whole files (no separate parser for this class)'}, nontrivial=False)
            return
        if not rets:
            r2.fail(f'{cls_name}: round trip', (loc(box['parser']) if box.get('parser') else where_of(repo, SQW, '_try_parse_block', 'Sqw.read_data_block')),
                    {'problem': 'the parser cannot read what the serializer of this class writes',
                     'outcomes': [(o.kind, o.exc_type, o.where, [str(a)[:80] for a in getattr(o, 'exc_args', ())]) for o in outs_box[0]]},
                    key=f'{cls_name}:roundtrip')
            return
        for o in rets:
            parsed = parsed_obj(o.value)
            if not isinstance(parsed, SObj):
                raise AnalysisError(f'{cls_name}: parser returned {parsed!r}')
            for f in value_fields:
                orig = box['fields'][f]
                got = parsed.attrs.get(f)
                if isinstance(orig, list):
                    oks = []
                    descs = []
                    for a, b in zip(got if isinstance(got, list) else [], orig, strict=False):
                        ok, d = same_value(a, b)
                        oks.append(ok)
                        descs.append(d)
                    ok = bool(oks) and all(oks) and len(got) == len(orig)
                    desc = descs[:4]
                else:
                    ok, desc = same_value(got, orig)
                inst = f'{cls_name}.{f}'
                if inst in seen:
                    continue
                seen.add(inst)
                r2.check(ok, inst, (loc(box['parser']) if box.get('parser') else where_of(repo, SQW, '_parse_line_proj_7_0', 'Sqw.read_data_block')),
                         {'supplied': T.show(orig.term) + f' [{orig.unit!r}]' if isinstance(orig, SVar) else [T.show(x.term) for x in orig],
                          'read_back': desc}, key=inst)
            for f in index_fields:
                orig = box['fields'][f]
                got = parsed.attrs.get(f)
                inst = f'{cls_name}.{f}'
                if inst in seen:
                    continue
                seen.add(inst)
                if isinstance(orig, SVar):
                    ok, desc = same_value(got, orig)
                else:
                    ok, desc = got == orig, repr(got)
                r2i.check(ok, inst, (loc(box['parser']) if box.get('parser') else where_of(repo, SQW, '_parse_line_axes_7_0', 'Sqw.read_data_block')), {'supplied': repr(orig) if not isinstance(orig, SVar) else T.show(orig.term), 'read_back': desc}, key=inst)
    seen: set = set()

    # ---- line_proj ----------------------------------------------------------------
    def proj_fields(i):
        return {'lattice_spacing': sv(i, 'alatt', 'angstrom', 'vector'), 'lattice_angle': sv(i, 'angdeg', 'deg', 'vector'),
                'offset': [sv(i, f'poff{k}', u) for k, u in enumerate(U4)], 'title': 't', 'label': ['a', 'b', 'c', 'd'],
                'u': sv(i, 'pu', '1/angstrom', 'vector'), 'v': sv(i, 'pv', '1/angstrom', 'vector'), 'w': sv(i, 'pw', '1/angstrom', 'vector'),
                'non_orthogonal': False, 'type': 'aaa'}
    rets, outs, box = roundtrip('SqwLineProj', proj_fields, parser_name='_parse_line_proj_7_0')
    check_fields('SqwLineProj', rets, box, ['lattice_spacing', 'lattice_angle', 'offset', 'u', 'v', 'w'], parsed_obj=lambda v: v[0])

    # ---- line_axes --------------------------------------------------------------------
    def axes_fields(i):
        return {'title': 't', 'label': ['a', 'b', 'c', 'd'],
                'img_scales': [sv(i, f'scale{k}', u) for k, u in enumerate(U4)],
                'img_range': [sv(i, f'range{k}', u) for k, u in enumerate(U4)],
                'n_bins_all_dims': sv(i, 'nbins', NO_UNIT), 'single_bin_defines_iax': Stub(values=[True, False, True, False]),
                'dax': sv(i, 'dax', NO_UNIT, dtype='int64'), 'offset': [sv(i, f'aoff{k}', u) for k, u in enumerate(U4)],
                'changes_aspect_ratio': True, 'filename': 'f', 'filepath': 'p'}
    rets, outs, box = roundtrip('SqwLineAxes', axes_fields, parser_name='_parse_line_axes_7_0', extra_parser_args=(list(U4),))
    check_fields('SqwLineAxes', rets, box, ['img_scales', 'img_range', 'offset'], index_fields=['dax'])

    # integer-valued metadata must be converted in floating point (scipp converts integer
    # variables in integer arithmetic and rounds)
    r2d = run.rule('R2d', 'unit conversion of integer-dtype metadata happens in float64', 2)
    for cname, mk, pn, extra in (('SqwLineAxes', axes_fields, '_parse_line_axes_7_0', (list(U4),)), ('SqwLineProj', proj_fields, '_parse_line_proj_7_0', ())):
        def int_fields(i, mk=mk):
            f = mk(i)
            for key in ('img_scales', 'img_range', 'offset'):
                if key in f:
                    f[key] = [sv(i, f'{key}{k}_i', u, dtype='int64') for k, u in enumerate(['1/nm', '1/nm', '1/nm', 'ueV'])]
            return f
        rets_i, outs_i, box_i = roundtrip(cname, int_fields, parser_name=pn, extra_parser_args=extra)
        lossy = [dict(e.detail, where=e.where) for o in outs_i for e in events(o, 'int-unit-conversion')]
        uniq = list({d['where']: d for d in lossy}.values())
        r2d.check(not uniq and bool(rets_i), f'{cname}: integer scales / ranges / offsets', where_of(repo, MODELS, '_serialize_multi_unit_array', 'SqwLineAxes._serialize_to_dict'),
                  {'integer_unit_conversions': uniq[:2]}, key=f'{cname}:int-conversion')

    # ---- IX_sample, IX_source -----------------------------------------------------------
    rets, outs, box = roundtrip('SqwIXSample', lambda i: {'name': 's', 'lattice_spacing': sv(i, 'salatt', 'angstrom', 'vector'),
                                                          'lattice_angle': sv(i, 'sangdeg', 'deg', 'vector')})
    check_fields('SqwIXSample', rets, box, ['lattice_spacing', 'lattice_angle'])
    rets, outs, box = roundtrip('SqwIXSource', lambda i: {'name': 's', 'target_name': 't', 'frequency': sv(i, 'freq', 'Hz')})
    check_fields('SqwIXSource', rets, box, ['frequency'])

    # ---- IX_experiment (single run), angles given in degrees ---------------------------------
    def exp_fields(i):
        return {'run_id': 4, 'efix': sv(i, 'efix', 'ueV'), 'emode': Stub(value=1), 'en': sv(i, 'en', 'ueV'),
                'psi': sv(i, 'psi', 'deg'), 'u': sv(i, 'eu', NO_UNIT, 'vector'), 'v': sv(i, 'ev', NO_UNIT, 'vector'),
                'omega': sv(i, 'omega', 'deg'), 'dpsi': sv(i, 'dpsi', 'rad'), 'gl': sv(i, 'gl', 'deg'), 'gs': sv(i, 'gs', 'deg'),
                'filename': 'f', 'filepath': 'p'}
    rets, outs, box = roundtrip('SqwIXExperiment', exp_fields, parser_name='_parse_single_ix_experiment_3_0')
    check_fields('SqwIXExperiment', rets, box, ['efix', 'en', 'psi', 'omega', 'dpsi', 'gl', 'gs'], index_fields=['run_id'])

    # ---- abstract-file round trip: builder -> bytes -> independent decoder / package reader -----------------------
    af_rules(run, repo, tier)
    return run


# ====================================================================================================================
def _si(unit: str | None):
    return (NO_UNIT if unit is None else parse_unit(unit)).scale()


def disk_ok(values, supplied: SVar, unit: str | None, what: str, probs: list, cast=None, disk_dims=None):
    """`values` (decoded numbers of one field) hold `supplied` expressed in `unit`, element by element.
    disk_dims: the documented order of the dimensions on disk (row-major), when the model accepts them in any order."""
    want = supplied.term / _si(unit) if supplied.term is not None else None
    vals = list(values)
    inner = []
    for v in vals:
        if cast is not None:
            if not (isinstance(v, Cast) and v.dtype == cast):
                probs.append(f'{what}: stored value {v!r} is not the {cast} rounding of the supplied number')
                return
            v = v.x
        inner.append(v)
    if len(inner) == 1 and isinstance(inner[0], SVar):
        got = inner[0].term
        if not (got is not None and type(got) is type(want) and got.eq(want)):
            probs.append(f'{what}: on disk {T.show(got) if got is not None else None}, supplied {T.show(want)} [{unit}]')
        return
    bases = {id(v.base) for v in inner if isinstance(v, Elem)}
    expected_order = list(range(len(inner)))
    sdims, sshape = supplied.members.get('dims'), supplied.members.get('shape')
    if disk_dims is not None and sdims is not None and sshape is not None and sorted(sdims) == sorted(disk_dims) and list(sdims) != list(disk_dims):
        import itertools
        expected_order = []
        for idx in itertools.product(*[range(sshape[list(sdims).index(d)]) for d in disk_dims]):
            named = dict(zip(disk_dims, idx, strict=True))
            flat = 0
            for ax, d in enumerate(sdims):
                flat = flat * sshape[ax] + named[d]
            expected_order.append(flat)
    if len(bases) != 1 or not all(isinstance(v, Elem) for v in inner) or [v.idx for v in inner] != expected_order:
        probs.append(f'{what}: on disk {inner[:4]!r}, expected the {len(inner)} supplied numbers in the documented order {expected_order[:4]}...')
        return
    base = inner[0].base
    n = 1
    for k in base.members.get('shape', (len(inner),)):
        n *= k
    if n != len(inner) or base.term is None or type(base.term) is not type(want) or not base.term.eq(want):
        probs.append(f'{what}: on disk {T.show(base.term) if base.term is not None else None} ({len(inner)} of {n} numbers), supplied {T.show(want)} [{unit}]')


def af_rules(run, repo, tier):
    r3 = run.rule('R3', 'pixels: all N pixels in order, nine rows converted to their declared units and rounded once to float32; metadata N and per-row (min, max)', 6)
    r4 = run.rule('R4', 'instrument and sample containers reference one shared object for every run (1-based indices)', 2)
    r5 = run.rule('R5', 'bytes decoded by the documented layout hold what was supplied: 1-based run ids, meV, radians, declared units of histogram metadata', 6)
    r6 = run.rule('R6', 'the package reader returns the supplied models: same values, units of the same physical dimension', 6)
    sfi = repo.func(SQW, 'Sqw.read_data_block')
    pix_cfgs = [(0, 3), (1, 1), (5, 2), (5, 5), (5, 8), (12, 5), (12, 9), (10, 1)] + ([(n, c) for n in (2, 9, 10, 19) for c in (1, 3, 9, 10, 40)] if tier == 'thorough' else [])
    bad3: dict = {}
    for npix, chunk in pix_cfgs:
        for bo in (('little', 'big') if (npix, chunk) in ((5, 2), (12, 5)) else ('little',)):
            cfg = f'pixels={npix} chunk={chunk} byteorder={bo}'
            wr = build(repo, ('P',), bo, npix, chunk, 1, 'memory', 't')
            if wr.outcome[0] != 'return':
                bad3.setdefault('pixel rows', {'configuration': cfg, 'problem': f'builder: {wr.outcome}'})
                continue
            try:
                dec = decode(wr)
            except sqwfmt.FormatError as ex:
                bad3.setdefault('pixel rows', {'configuration': cfg, 'problem': f'file does not decode: {ex}'})
                continue
            pix = dec[('pix', 'data_wrap')]
            probs = []
            if pix['n_pixels'] != npix or pix['n_rows'] != 9:
                probs.append(f'{pix["n_pixels"]} pixels x {pix["n_rows"]} rows on disk, {npix} x 9 supplied')
            else:
                for p_, row in enumerate(pix['pixels']):
                    for r_, cell in enumerate(row):
                        why = pixel_cell_ok(cell, r_, p_)
                        if why:
                            probs.append(f'pixel {p_} row {ROW_NAMES[r_]}: {why}')
                            break
                    if probs:
                        break
            if probs:
                bad3.setdefault('pixel rows', {'configuration': cfg, 'problem': probs[0]})
            meta = sqwfmt.the_struct(dec[('pix', 'metadata')])
            mp = []
            if sqwfmt.scalar(meta['npix']) != float(npix):
                mp.append(f'npix on disk {sqwfmt.scalar(meta["npix"])}, {npix} pixels supplied')
            dr = meta['data_range']
            if dr['shape'] != (2, 9) or len(dr['data']) != 18:
                mp.append(f'data_range has shape {dr["shape"]}')
            elif npix > 0:
                for r_ in range(9):
                    src = row_source_term(r_)
                    for k, red in ((0, 'min'), (1, 'max')):
                        v = dr['data'][2 * r_ + k]
                        want = Rat.fn(red, src) / _si(ROW_UNITS[r_])
                        if not (isinstance(v, SVar) and isinstance(v.term, Rat) and v.term.eq(want)):
                            mp.append(f'data_range[{ROW_NAMES[r_]}].{red} on disk is {T.show(v.term) if isinstance(v, SVar) and v.term is not None else v!r}, expected {T.show(want)}')
                            break
                    if mp:
                        break
            if mp:
                bad3.setdefault('pixel metadata', {'configuration': cfg, 'problem': mp[0]})
            # package reader
            kind, sq = reopen(wr)
            if kind == 'return':
                kind, arr = wr.world.call(sfi, [('pix', 'data_wrap')], bound=sq, budget=400_000)
                ok = kind == 'return' and isinstance(arr, NdArr) and arr.shape == (npix, 9) and arr.dtype.name == 'float32' and \
                    all(not pixel_cell_ok(arr.elems[p_ * 9 + r_], r_, p_) for p_ in range(npix) for r_ in range(9))
                if not ok:
                    bad3.setdefault('package reader returns the pixels', {'configuration': cfg, 'problem': f'{kind} {arr!r}'[:200]})
            else:
                bad3.setdefault('package reader returns the pixels', {'configuration': cfg, 'problem': f'{kind} {sq}'[:200]})
    for inst, where in (('pixel rows', where_of(repo, BUILD, '_PixWrap.write', 'SqwBuilder.create')), ('pixel metadata', where_of(repo, BUILD, 'SqwBuilder._make_pix_metadata', 'SqwBuilder.create')), ('package reader returns the pixels', where_of(repo, SQW, '_read_pix_block', 'Sqw.read_data_block'))):
        r3.check(inst not in bad3, inst, where, bad3.get(inst, {'configurations': len(pix_cfgs)}), key=inst)
    for _ in range(3):
        r3.ok('configuration')

    # ---- metadata: two runs, all builder calls, both byte orders ---------------------------------------------------
    for bo, n_runs, indirect, calls in (('little', 1, False, 'PISDT'), ('big', 3, False, 'PISDT'), ('little', 2, True, 'PISDT'), ('little', 1, 'transposed', 'PISDT'),
                                        ('big', 2, 'shared', 'PISDT'), ('little', 2, 'shared', 'PISDT'),
                                        # run ids that are not the positions of the runs: counted down to 0, and starting above 0
                                        ('little', 3, 'ids 2,1,0', 'PISDT'), ('big', 2, 'ids 5,3', 'PISDT'),
                                        # the builder calls in other orders: instrument and sample before the pixel data that registers the runs
                                        ('little', 2, False, 'ISDPT'), ('big', 1, False, 'SIPDT')):
        ids = [int(x) for x in indirect[4:].split(',')] if isinstance(indirect, str) and indirect.startswith('ids ') else None
        wr = build(repo, tuple(calls), bo, 4, 3, n_runs, 'memory', 'the title', indirect=indirect is True or indirect == 'transposed',
                   transposed=indirect == 'transposed', shared_runs=indirect == 'shared', run_ids=ids)
        cfg = f'byteorder={bo} runs={n_runs} calls={calls} mode=' + {False: 'direct', True: 'indirect', 'transposed': 'indirect, en supplied as (energy_transfer, detector)',
                                                                    'shared': 'direct, runs made from one template (shared arrays)'}.get(indirect, f'direct, run {indirect}')
        if wr.outcome[0] != 'return':
            r5.fail(f'builder [{cfg}]', loc(repo.func(BUILD, 'SqwBuilder.create')), {'outcome': wr.outcome}, key='builder')
            continue
        try:
            dec = decode(wr)
        except sqwfmt.FormatError as ex:
            r5.fail(f'file decodes [{cfg}]', loc(repo.func(BUILD, 'SqwBuilder.create')), {'problem': str(ex)}, key='decodes')
            continue
        sup = wr.supplied
        vprobs = [p_ for blk in dec.values() for p_ in sqwfmt.version_problems(blk)]
        r5.check(not vprobs, f'class names and versions of the documented layout [{cfg}]', where_of(repo, MODELS, 'SqwMainHeader.prepare_for_serialization', 'SqwMainHeader._serialize_to_dict'),
                 {'problems': sorted(set(vprobs))[:3]}, key='versions')
        try:
            _decoded_content_rules(dec, sup, n_runs, cfg, repo, r4, r5)
        except (KeyError, IndexError, sqwfmt.FormatError) as ex:
            r5.fail(f'decoded content [{cfg}]', where_of(repo, MODELS, 'SqwIXExperiment._serialize_to_dict', 'SqwIXExperiment.prepare_for_serialization'),
                    {'problems': [f'a documented field is missing or malformed on disk: {type(ex).__name__} {ex}']}, key='content')
        _reader_rules(wr, sup, n_runs, cfg, repo, r6, sfi)

    # ---- R7: what is read does not depend on what was read before ---------------------------------------------------------
    r7 = run.rule('R7', 'reading does not depend on earlier reads: a file is written to a path and read, a second file of the same layout with '
                        'other numbers is written to the same path in the same world (module-level tables and caches persist) and read: the '
                        'models returned are those of the second file', 2)
    for bo, n_runs in (('little', 2), ('big', 1)):
        w1 = build(repo, tuple('PISDT'), bo, 4, 3, n_runs, 'file', 'the title')
        cfg = f'byteorder={bo} runs={n_runs}: second file at the same path'
        if w1.outcome[0] != 'return':
            r7.fail(f'builder [{cfg}]', loc(repo.func(BUILD, 'SqwBuilder.create')), {'outcome': w1.outcome}, key='history-builder')
            continue
        _reader_rules(w1, w1.supplied, n_runs, cfg + ' (first file)', repo, run.rule('R7', ''), sfi) if False else None
        k1, sq1 = reopen(w1)
        if k1 == 'return':
            for name in (('experiment_info', 'expdata'), ('experiment_info', 'samples'), ('experiment_info', 'instruments'), ('', 'main_header'),
                         ('data', 'metadata'), ('pix', 'metadata')):
                w1.world.call(sfi, [name], bound=sq1, budget=400_000)
        w1.world.it.end_of_call()
        w1.world.tag = "'"
        w2 = build(repo, tuple('PISDT'), bo, 4, 3, n_runs, 'file', 'the title', world=w1.world)
        if w2.outcome[0] != 'return':
            r7.fail(f'builder [{cfg}]', loc(repo.func(BUILD, 'SqwBuilder.create')), {'outcome': w2.outcome}, key='history-builder')
            continue
        _reader_rules(w2, w2.supplied, n_runs, cfg, repo, r7, sfi)


def _decoded_content_rules(dec, sup, n_runs, cfg, repo, r4, r5):
    if True:
        # R4 containers
        for block, base, what in ((('experiment_info', 'instruments'), 'IX_inst', 'instrument'), (('experiment_info', 'samples'), 'IX_samp', 'sample')):
            st = sqwfmt.the_struct(dec[block])
            probs = []
            cont = sqwfmt.the_struct(st['unique_objects'])
            objs = cont['unique_objects']['data']
            idx = cont['idx']['data']
            if sqwfmt.scalar(st['stored_baseclass']) != base or sqwfmt.scalar(cont['baseclass']) != base:
                probs.append('base class name')
            if len(objs) != 1:
                probs.append(f'{len(objs)} stored objects, one shared object expected')
            if list(idx) != [1.0] * n_runs:
                probs.append(f'indices on disk {idx}, expected {n_runs} references to object 1 (1-based)')
            r4.check(not probs, f'{what} container [{cfg}]', where_of(repo, BUILD, '_broadcast_unique_ref', 'SqwBuilder.create'), {'problems': probs}, key=what)
        # R5 independent decode
        probs = []
        mh = sqwfmt.the_struct(dec[('', 'main_header')])
        if sqwfmt.scalar(mh['title']) != 'the title' or sqwfmt.scalar(mh['nfiles']) != float(n_runs) or sqwfmt.scalar(mh['full_filename']) != 'in_memory':
            probs.append(f'main header: title {sqwfmt.scalar(mh["title"])!r}, nfiles {sqwfmt.scalar(mh["nfiles"])}')
        runs = sqwfmt.the_struct(dec[('experiment_info', 'expdata')])['array_dat']['data']
        if len(runs) != n_runs:
            probs.append(f'{len(runs)} experiment records on disk, {n_runs} runs supplied')
        for k, (rec, ex_) in enumerate(zip(runs, sup['experiments'], strict=False)):
            a = ex_.attrs
            if sqwfmt.scalar(rec['run_id']) != float(a['run_id'] + 1):
                probs.append(f'run {k}: run_id on disk {sqwfmt.scalar(rec["run_id"])}, expected 1-based {a["run_id"] + 1}')
            if sqwfmt.scalar(rec['filename']) != a['filename'] or sqwfmt.scalar(rec['filepath']) != a['filepath'] or sqwfmt.scalar(rec['emode']) != {'direct': 1.0, 'indirect': 2.0}.get(a['emode'].name) \
                    or sqwfmt.scalar(rec['angular_is_degree']) is not False:
                probs.append(f'run {k}: file name / mode / angle flag')
            disk_ok(rec['efix']['data'], a['efix'], 'meV', f'run {k} efix', probs)
            disk_ok(rec['en']['data'], a['en'], 'meV', f'run {k} en', probs, disk_dims=('detector', 'energy_transfer') if len(a['en'].members.get('shape', ())) == 2 else None)
            for ang in ('psi', 'omega', 'dpsi', 'gl', 'gs'):
                disk_ok(rec[ang]['data'], a[ang], 'rad', f'run {k} {ang}', probs)
            for vec in ('u', 'v'):
                disk_ok(rec[vec]['data'], a[vec], None, f'run {k} {vec}', probs)
        smp = sqwfmt.the_struct(sqwfmt.the_struct(sqwfmt.the_struct(dec[('experiment_info', 'samples')])['unique_objects'])['unique_objects']['data'][0])
        disk_ok(smp['alatt']['data'], sup['sample'].attrs['lattice_spacing'], 'angstrom', 'sample alatt', probs)
        disk_ok(smp['angdeg']['data'], sup['sample'].attrs['lattice_angle'], 'deg', 'sample angdeg', probs)
        ins = sqwfmt.the_struct(sqwfmt.the_struct(sqwfmt.the_struct(dec[('experiment_info', 'instruments')])['unique_objects'])['unique_objects']['data'][0])
        src = sqwfmt.the_struct(ins['source'])
        disk_ok(src['frequency']['data'], sup['instrument'].attrs['source'].attrs['frequency'], 'Hz', 'source frequency', probs)
        if sqwfmt.scalar(ins['name']) != 'LET' or sqwfmt.scalar(src['name']) != 'moderator' or sqwfmt.scalar(src['target_name']) != 'TS2' or sqwfmt.scalar(smp['name']) != 'vanadium':
            probs.append('instrument / source / sample names')
        md = sqwfmt.the_struct(dec[('data', 'metadata')])
        axes, proj = sqwfmt.the_struct(md['axes']), sqwfmt.the_struct(md['proj'])
        u4 = ['1/angstrom'] * 3 + ['meV']
        sa_, sp_ = sup['dnd'].attrs['axes'].attrs, sup['dnd'].attrs['proj'].attrs
        for k in range(4):
            disk_ok(axes['img_scales']['data'][k:k + 1], sa_['img_scales'][k], u4[k], f'img_scales[{k}]', probs)
            disk_ok(axes['offset']['data'][k:k + 1], sa_['offset'][k], u4[k], f'axes offset[{k}]', probs)
            disk_ok(proj['offset']['data'][k:k + 1], sp_['offset'][k], u4[k], f'proj offset[{k}]', probs)
            disk_ok(axes['img_range']['data'][2 * k:2 * k + 2], sa_['img_range'][k], u4[k], f'img_range[{k}]', probs)
        if list(axes['nbins_all_dims']['data']) != [float(x) for x in DND_SHAPE]:
            probs.append(f'nbins_all_dims on disk {axes["nbins_all_dims"]["data"]}')
        if list(axes['dax']['data']) != [1.0, 2.0, 3.0, 4.0]:
            probs.append(f'dax on disk {axes["dax"]["data"]}, expected the 1-based display axes 1..4')
        if list(axes['single_bin_defines_iax']['data']) != [False, True, False, True] or [n_['data'][0] for n_ in axes['label']['data']] != ['h', 'k', 'l', 'E']:
            probs.append('axes flags / labels')
        disk_ok(proj['alatt']['data'], sp_['lattice_spacing'], 'angstrom', 'proj alatt', probs)
        disk_ok(proj['angdeg']['data'], sp_['lattice_angle'], 'deg', 'proj angdeg', probs)
        for vec in ('u', 'v', 'w'):
            disk_ok(proj[vec]['data'], sp_[vec], '1/angstrom', f'proj {vec}', probs)
        if dec[('data', 'nd_data')]['shape'] != DND_SHAPE:
            probs.append(f'histogram shape on disk {dec[("data", "nd_data")]["shape"]}, declared {DND_SHAPE}')
        r5.check(not probs, f'decoded content [{cfg}]', where_of(repo, MODELS, 'SqwIXExperiment._serialize_to_dict', 'SqwIXExperiment.prepare_for_serialization'), {'problems': probs[:4]}, key='content')
        for _ in range(2):
            r5.ok('block')


def _reader_rules(wr, sup, n_runs, cfg, repo, r6, sfi):
    if True:
        # R6 package reader
        kind, sq = reopen(wr)
        probs = []
        if kind != 'return':
            probs.append(f'Sqw.open: {kind} {sq}'[:200])
        else:
            w = wr.world

            def read(name):
                k_, v_ = w.call(sfi, [name], bound=sq, budget=400_000)
                if k_ != 'return':
                    probs.append(f'{name}: {k_} {v_}'[:200])
                    return None
                return v_
            exps = read(('experiment_info', 'expdata'))
            if isinstance(exps, list) and len(exps) == n_runs and all(isinstance(x, SObj) and x.cls.module.endswith('_models') for x in exps):
                for k, (got, ex_) in enumerate(zip(exps, sup['experiments'], strict=True)):
                    model_ok(got, ex_, f'run {k}', ['efix', 'en', 'psi', 'omega', 'dpsi', 'gl', 'gs', 'u', 'v'], ['run_id', 'filename', 'filepath', 'emode'], probs, w)
            elif exps is not None:
                probs.append(f'{len(exps) if isinstance(exps, list) else exps!r} experiments read, {n_runs} supplied')
            smps = read(('experiment_info', 'samples'))
            if isinstance(smps, list) and len(smps) == n_runs and all(x is smps[0] for x in smps):
                model_ok(smps[0], sup['sample'], 'sample', ['lattice_spacing', 'lattice_angle'], ['name'], probs, w)
            elif smps is not None:
                probs.append(f'samples read: {smps!r}'[:160])
            inss = read(('experiment_info', 'instruments'))
            if isinstance(inss, list) and len(inss) == n_runs and isinstance(inss[0], SObj):
                model_ok(inss[0].attrs.get('source'), sup['instrument'].attrs['source'], 'source', [], ['name', 'target_name'], probs, w)
            elif inss is not None:
                probs.append(f'instruments read: {inss!r}'[:160])
            def is_model(v_, what):
                # the reader hands out the package's model of the block (an unparsed structure means it did not recognise what the builder wrote)
                if isinstance(v_, SObj) and v_.cls.module.endswith('_models'):
                    return True
                if v_ is not None:
                    probs.append(f'{what}: the reader returns {v_.cls.name if isinstance(v_, SObj) else type(v_).__name__} instead of the model of this block')
                return False
            mh_ = read(('', 'main_header'))
            if is_model(mh_, 'main header'):
                if mh_.attrs.get('title') != 'the title' or mh_.attrs.get('nfiles') != n_runs:
                    probs.append(f'main header read back: {mh_.attrs}'[:160])
            dm = read(('data', 'metadata'))
            if is_model(dm, 'histogram metadata'):
                model_ok(dm.attrs.get('proj'), sup['dnd'].attrs['proj'], 'proj', ['lattice_spacing', 'lattice_angle', 'u', 'v', 'w', 'offset'], ['title', 'label', 'type', 'non_orthogonal'], probs, w)
                model_ok(dm.attrs.get('axes'), sup['dnd'].attrs['axes'], 'axes', ['img_scales', 'img_range', 'offset'], ['title', 'label', 'changes_aspect_ratio'], probs, w)
                ax = dm.attrs.get('axes')
                if isinstance(ax, SObj):
                    for fld, want in (('dax', [0, 1, 2, 3]), ('n_bins_all_dims', list(DND_SHAPE))):
                        got = ax.attrs.get(fld)
                        c_ = got.members.get('concrete') if isinstance(got, SVar) else None
                        if c_ is None or [int(x) for x in c_] != want:
                            probs.append(f'axes.{fld} read back as {c_!r}, supplied {want}')
            pm = read(('pix', 'metadata'))
            if is_model(pm, 'pixel metadata') and pm.attrs.get('npix') != 4:
                probs.append(f'npix read back {pm.attrs.get("npix")}')
        r6.check(not probs, f'package reader [{cfg}]', loc(sfi), {'problems': probs[:4]}, key='reader')
        for _ in range(2):
            r6.ok('block')


def decode(wr) -> dict:
    u = wr.file.units
    order = sqwfmt.detect_order(u)
    c = sqwfmt.Cursor(u, order)
    sqwfmt.file_header(c)
    bt = sqwfmt.block_table(c)
    out = {}
    for b in bt['blocks']:
        cur = sqwfmt.Cursor(u, order, b['position'])
        if b['block_type'] == 'pix_data_block':
            out[b['name']] = sqwfmt.pixel_block(cur)
        elif b['block_type'] == 'dnd_data_block':
            out[b['name']] = sqwfmt.histogram_block(cur)
        else:
            out[b['name']] = sqwfmt.object_array(cur)
    return out


def row_source_term(r_: int) -> Rat:
    name = ROW_NAMES[r_]
    if name == 'signal':
        return Rat.sym('signal')
    if name == 'error':
        return Rat.fn('variances', Rat.sym('signal'))
    return Rat.sym('c_' + name)


def pixel_cell_ok(cell, r_: int, p_: int):
    """None if `cell` is float32(row r of pixel p in the declared unit), else a description."""
    if not (isinstance(cell, Cast) and cell.dtype == 'float32'):
        return f'stored as {cell!r}, expected one rounding to float32'
    e = cell.x
    if not isinstance(e, Elem):
        return f'stored value {e!r} is not an element of a supplied row'
    lo = p_ - e.idx  # element idx of the slice lo:hi is pixel lo + idx
    if lo < 0 or not isinstance(e.base.term, Rat):
        return f'holds element {e.idx} of {T.show(e.base.term) if e.base.term is not None else None}'
    n = (e.base.members.get('shape') or (0,))[0]
    hi = lo + n
    want = Rat.fn('index', row_source_term(r_), Rat.sym(f'key:{lo}:{hi}')) / _si(ROW_UNITS[r_])
    if not (isinstance(e.base.term, Rat) and e.base.term.eq(want)):
        return f'value {T.show(e.base.term) if e.base.term is not None else None}, expected {T.show(want)}'
    return None


def model_ok(got, supplied, what, value_fields, plain_fields, probs, w):
    if not isinstance(got, SObj):
        probs.append(f'{what}: read back as {got!r}'[:160])
        return
    for f in plain_fields:
        a, b = got.attrs.get(f), supplied.attrs.get(f)
        if a != b and not (a is b):
            probs.append(f'{what}.{f}: read back {a!r}, supplied {b!r}')
    for f in value_fields:
        a, b = got.attrs.get(f), supplied.attrs.get(f)
        pairs = list(zip(a, b, strict=False)) if isinstance(b, list) and isinstance(a, list) and len(a) == len(b) else ([(a, b)] if not isinstance(b, list) else None)
        if pairs is None:
            probs.append(f'{what}.{f}: read back {a!r}'[:160])
            continue
        for x, y in pairs:
            ok, desc = same_value(x, y)
            dim_ok = True
            if ok and isinstance(x, SVar) and x.unit not in (None, NO_UNIT) and y.unit not in (None, NO_UNIT):
                try:
                    dim_ok = x.unit.dim(w.it.param_dims) == y.unit.dim(w.it.param_dims)
                except Exception:  # noqa: BLE001
                    dim_ok = True
            if not ok or not dim_ok:
                probs.append(f'{what}.{f}: read back {desc}, supplied {T.show(y.term) if y.term is not None else None} [{y.unit!r}]' + ('' if dim_ok else ' (unit of another dimension)'))
                break
