"""C13 — SQW content is what was supplied: pixels, run metadata, histogram metadata."""

from __future__ import annotations

import ast
import datetime as _dt

from sa import term as T
from sa.interp import FuncRef, Interp, Opaque, SObj, SVar
from sa.kernel import P, make_param
from sa.load import AnalysisError, Repo, loc
from sa.report import Run
from sa.scipp_model import Model
from sa.term import Rat, Vec
from sa.units import NO_UNIT, Unit, parse_unit

from .common import events

MODELS, SQW, BUILD = 'io.sqw._models', 'io.sqw._sqw', 'io.sqw._build'
U4 = ['1/angstrom'] * 3 + ['meV']


class Stub:
    def __init__(self, **kw):
        self.__dict__.update(kw)


def norm_(node) -> str:
    return ast.unparse(node).replace(' ', '')


def stmts(fn) -> list[str]:
    return [norm_(s) for s in ast.walk(fn) if isinstance(s, ast.stmt)
            and not isinstance(s, ast.FunctionDef | ast.If | ast.For | ast.Try | ast.With | ast.While)]


def sv(it, name, unit, kind='scalar', dtype=None):
    u = parse_unit(unit) if isinstance(unit, str) else unit
    spec = P(kind=kind, dim='ONE', positive=False, unit=u, dtype='vector3' if kind == 'vector' else (dtype or 'float64'))
    return make_param(it, name, spec)


def physical(v: SVar):
    return v.term


def same_value(parsed, original: SVar):
    """(ok, description): the parsed variable carries the physical value that was supplied."""
    if not isinstance(parsed, SVar) or parsed.term is None:
        return False, f'parsed value unknown ({getattr(parsed, "why", parsed)!r})'
    if type(parsed.term) is not type(original.term):
        return False, f'kind changed: {T.show(parsed.term)}'
    if parsed.unit == NO_UNIT and original.unit != NO_UNIT:
        # unit dropped (not re-labelled): the bare numbers must be those supplied
        ok = parsed.term.eq(original.term / original.unit.scale()) if isinstance(parsed.term, Rat) else parsed.term.eq(original.term / original.unit.scale())
        return ok, f'unit dropped; numbers {"preserved" if ok else "changed"}: {T.show(parsed.term)}'
    ok = parsed.term.eq(original.term)
    return ok, f'{T.show(parsed.term)} [{parsed.unit!r}]'


def run(tier: str) -> Run:
    run = Run('C13', tier, 'other',
              'Abstract round trip: for every metadata model class a symbolic instance is serialised by the '
              'package\'s own _serialize_to_dict / serialize_to_ir in the abstract interpreter and the resulting '
              'intermediate representation is handed to the parser registered for that class; every unit-carrying '
              'field must come back with the physical value that went in (the term domain tracks the unit a bare '
              'number is expressed in, so writing in angstrom and labelling 1/angstrom shows as a factor 1e20), '
              '1-based indices must be undone, and every field the parser asks for must be written.  Pixel rows: '
              'nine names <-> nine units, values/variances for signal/error, one conversion per row straight '
              'into the float32 buffer, data_range from the same (row, unit) pairs, npix from n_pixels().  The '
              'byte-level encoding is C12; numpy/float formatting is not decided.')
    repo = Repo()
    run.analysed = {'modules': [MODELS, SQW, BUILD, 'io.sqw._ir'], 'digest': repo.digest.hexdigest()}
    run.trusted = ['sa/interp.py object model', 'sa/scipp_model.py (raw values carry the unit they are expressed in)']
    T.reset()
    it = Interp(repo, Model())
    mmi = repo.module(MODELS)
    parsers = it.global_name('_BLOCK_PARSERS', repo.module(SQW), None)
    if not isinstance(parsers, dict) or not parsers:
        raise AnalysisError('_BLOCK_PARSERS is not a literal table')

    def roundtrip(cls_name, make_fields, parser_name=None, extra_parser_args=()):
        ci = repo.cls(MODELS, cls_name)
        box = {}

        def go(i):
            fields = make_fields(i)
            box['fields'] = fields
            obj = SObj(ci, dict(fields))
            struct = i.call_function(i.find_method(ci, 'serialize_to_ir'), [], {}, bound=obj)
            box['struct'] = struct
            if parser_name is not None:
                pf = repo.func(SQW, parser_name)
                return i.call_function(pf, [struct, *extra_parser_args], {})
            key = (i.class_attr(ci, 'serial_name'), i.class_attr(ci, 'version'))
            ref = parsers.get(key)
            if not isinstance(ref, FuncRef):
                raise AnalysisError(f'no parser registered for {key}')
            box['parser'] = ref.fi
            return i.call_function(ref.fi, [struct], {})
        outs = it.run_all(go)
        outs_box[0] = outs
        rets = [o for o in outs if o.kind == 'return']
        return rets, outs, box

    r1 = run.rule('R1', 'every field a parser reads is written by the serializer of its class', 6)
    r2 = run.rule('R2', 'unit-carrying fields come back with the physical value that was supplied (writer unit == reader label)', 19)
    r2i = run.rule('R2i', '1-based indices on disk are undone on reading', 3)

    outs_box = [[]]

    def check_fields(cls_name, rets, box, value_fields, parsed_obj=lambda v: v, index_fields=()):
        if not rets:
            r2.fail(f'{cls_name}: round trip', loc(box.get('parser') or repo.func(SQW, '_try_parse_block')),
                    {'problem': 'the parser cannot read what the serializer of this class writes',
                     'outcomes': [(o.kind, o.exc_type, o.where, [str(a)[:80] for a in getattr(o, 'exc_args', ())]) for o in outs_box[0]]},
                    key=f'{cls_name}:roundtrip')
            return
        for o in rets:
            parsed = parsed_obj(o.value)
            if not isinstance(parsed, SObj):
                raise AnalysisError(f'{cls_name}: parser returned {parsed!r}')
            for f in value_fields:
                orig = box['fields'][f]
                got = parsed.attrs.get(f)
                if isinstance(orig, list):
                    oks = []
                    descs = []
                    for a, b in zip(got if isinstance(got, list) else [], orig, strict=False):
                        ok, d = same_value(a, b)
                        oks.append(ok)
                        descs.append(d)
                    ok = bool(oks) and all(oks) and len(got) == len(orig)
                    desc = descs[:4]
                else:
                    ok, desc = same_value(got, orig)
                inst = f'{cls_name}.{f}'
                if inst in seen:
                    continue
                seen.add(inst)
                r2.check(ok, inst, loc(box.get('parser') or repo.func(SQW, '_parse_line_proj_7_0')),
                         {'supplied': T.show(orig.term) + f' [{orig.unit!r}]' if isinstance(orig, SVar) else [T.show(x.term) for x in orig],
                          'read_back': desc}, key=inst)
            for f in index_fields:
                orig = box['fields'][f]
                got = parsed.attrs.get(f)
                inst = f'{cls_name}.{f}'
                if inst in seen:
                    continue
                seen.add(inst)
                if isinstance(orig, SVar):
                    ok, desc = same_value(got, orig)
                else:
                    ok, desc = got == orig, repr(got)
                r2i.check(ok, inst, loc(box.get('parser') or repo.func(SQW, '_parse_line_axes_7_0')), {'supplied': repr(orig) if not isinstance(orig, SVar) else T.show(orig.term), 'read_back': desc}, key=inst)
    seen: set = set()

    # ---- line_proj ----------------------------------------------------------------
    def proj_fields(i):
        return {'lattice_spacing': sv(i, 'alatt', 'angstrom', 'vector'), 'lattice_angle': sv(i, 'angdeg', 'deg', 'vector'),
                'offset': [sv(i, f'poff{k}', u) for k, u in enumerate(U4)], 'title': 't', 'label': ['a', 'b', 'c', 'd'],
                'u': sv(i, 'pu', '1/angstrom', 'vector'), 'v': sv(i, 'pv', '1/angstrom', 'vector'), 'w': sv(i, 'pw', '1/angstrom', 'vector'),
                'non_orthogonal': False, 'type': 'aaa'}
    rets, outs, box = roundtrip('SqwLineProj', proj_fields, parser_name='_parse_line_proj_7_0')
    box['parser'] = repo.func(SQW, '_parse_line_proj_7_0')
    check_fields('SqwLineProj', rets, box, ['lattice_spacing', 'lattice_angle', 'offset', 'u', 'v', 'w'], parsed_obj=lambda v: v[0])

    # ---- line_axes --------------------------------------------------------------------
    def axes_fields(i):
        return {'title': 't', 'label': ['a', 'b', 'c', 'd'],
                'img_scales': [sv(i, f'scale{k}', u) for k, u in enumerate(U4)],
                'img_range': [sv(i, f'range{k}', u) for k, u in enumerate(U4)],
                'n_bins_all_dims': sv(i, 'nbins', NO_UNIT), 'single_bin_defines_iax': Stub(values=[True, False, True, False]),
                'dax': sv(i, 'dax', NO_UNIT, dtype='int64'), 'offset': [sv(i, f'aoff{k}', u) for k, u in enumerate(U4)],
                'changes_aspect_ratio': True, 'filename': 'f', 'filepath': 'p'}
    rets, outs, box = roundtrip('SqwLineAxes', axes_fields, parser_name='_parse_line_axes_7_0', extra_parser_args=(list(U4),))
    box['parser'] = repo.func(SQW, '_parse_line_axes_7_0')
    check_fields('SqwLineAxes', rets, box, ['img_scales', 'img_range', 'offset'], index_fields=['dax'])

    # integer-valued metadata must be converted in floating point (scipp converts integer
    # variables in integer arithmetic and rounds)
    r2d = run.rule('R2d', 'unit conversion of integer-dtype metadata happens in float64', 2)
    for cname, mk, pn, extra in (('SqwLineAxes', axes_fields, '_parse_line_axes_7_0', (list(U4),)), ('SqwLineProj', proj_fields, '_parse_line_proj_7_0', ())):
        def int_fields(i, mk=mk):
            f = mk(i)
            for key in ('img_scales', 'img_range', 'offset'):
                if key in f:
                    f[key] = [sv(i, f'{key}{k}_i', u, dtype='int64') for k, u in enumerate(['1/nm', '1/nm', '1/nm', 'ueV'])]
            return f
        rets_i, outs_i, box_i = roundtrip(cname, int_fields, parser_name=pn, extra_parser_args=extra)
        lossy = [dict(e.detail, where=e.where) for o in outs_i for e in events(o, 'int-unit-conversion')]
        uniq = list({d['where']: d for d in lossy}.values())
        r2d.check(not uniq and bool(rets_i), f'{cname}: integer scales / ranges / offsets', loc(repo.func(MODELS, '_serialize_multi_unit_array')),
                  {'integer_unit_conversions': uniq[:2]}, key=f'{cname}:int-conversion')

    # ---- IX_sample, IX_source -----------------------------------------------------------
    rets, outs, box = roundtrip('SqwIXSample', lambda i: {'name': 's', 'lattice_spacing': sv(i, 'salatt', 'angstrom', 'vector'),
                                                          'lattice_angle': sv(i, 'sangdeg', 'deg', 'vector')})
    check_fields('SqwIXSample', rets, box, ['lattice_spacing', 'lattice_angle'])
    rets, outs, box = roundtrip('SqwIXSource', lambda i: {'name': 's', 'target_name': 't', 'frequency': sv(i, 'freq', 'Hz')})
    check_fields('SqwIXSource', rets, box, ['frequency'])

    # ---- IX_experiment (single run), angles given in degrees ---------------------------------
    def exp_fields(i):
        return {'run_id': 4, 'efix': sv(i, 'efix', 'ueV'), 'emode': Stub(value=1), 'en': sv(i, 'en', 'ueV'),
                'psi': sv(i, 'psi', 'deg'), 'u': sv(i, 'eu', NO_UNIT, 'vector'), 'v': sv(i, 'ev', NO_UNIT, 'vector'),
                'omega': sv(i, 'omega', 'deg'), 'dpsi': sv(i, 'dpsi', 'rad'), 'gl': sv(i, 'gl', 'deg'), 'gs': sv(i, 'gs', 'deg'),
                'filename': 'f', 'filepath': 'p'}
    rets, outs, box = roundtrip('SqwIXExperiment', exp_fields, parser_name='_parse_single_ix_experiment_3_0')
    box['parser'] = repo.func(SQW, '_parse_single_ix_experiment_3_0')
    check_fields('SqwIXExperiment', rets, box, ['efix', 'en', 'psi', 'omega', 'dpsi', 'gl', 'gs'], index_fields=['run_id'])

    # ---- R1: field names -------------------------------------------------------------------------
    pairs = {
        'SqwMainHeader': '_parse_main_header_cl_2_0', 'SqwDndMetadata': '_parse_dnd_metadata_1_0', 'SqwLineAxes': '_parse_line_axes_7_0',
        'SqwLineProj': '_parse_line_proj_7_0', 'SqwPixelMetadata': '_parse_pix_metadata_1_0', 'SqwIXSource': '_parse_ix_source_2_0',
        'SqwIXNullInstrument': '_parse_ix_null_instrument_1_0', 'SqwIXSample': '_parse_ix_sample_0_0',
        'SqwIXExperiment': '_parse_single_ix_experiment_3_0', 'SqwMultiIXExperiment': '_parse_ix_experiment_3_0',
        'UniqueRefContainer': '_parse_unique_references_container_1_0', 'UniqueObjContainer': '_parse_unique_objects_container_1_0',
    }
    for cname, pname in pairs.items():
        ci = repo.cls(MODELS, cname)
        sfi = ci.methods.get('_serialize_to_dict')
        if sfi is None:
            raise AnalysisError(f'{cname}._serialize_to_dict not found')
        written = set()
        for n in ast.walk(sfi.node):
            if isinstance(n, ast.Return) and isinstance(n.value, ast.Dict):
                written = {k.value for k in n.value.keys if isinstance(k, ast.Constant)}
        pfi = repo.func(SQW, pname)
        read = set()
        for n in ast.walk(pfi.node):
            if isinstance(n, ast.Call) and ast.unparse(n.func) in ('_get_struct_field', '_get_scalar_struct_field', 'g', 'get_vec') and n.args:
                a = n.args[-1] if ast.unparse(n.func) in ('g', 'get_vec') and len(n.args) == 1 else (n.args[1] if len(n.args) > 1 else n.args[0])
                if ast.unparse(n.func) == 'get_vec':
                    a = n.args[0]
                if isinstance(a, ast.Constant) and isinstance(a.value, str):
                    read.add(a.value)
        read.discard('serial_name')
        read.discard('version')
        r1.check(read <= written and bool(written), f'{cname} <- {pname}', loc(pfi), {'read_but_not_written': sorted(read - written), 'written': sorted(written)}, key=cname)
    # the registry maps (serial_name, version) of the classes to these parsers
    reg_ok = []
    for cname, pname in pairs.items():
        ci = repo.cls(MODELS, cname)
        try:
            key = (it.class_attr(ci, 'serial_name'), it.class_attr(ci, 'version'))
        except AnalysisError:
            continue
        ref = parsers.get(key)
        if cname in ('SqwLineAxes', 'SqwLineProj'):
            continue  # parsed through dnd_metadata
        if cname == 'SqwIXExperiment':
            continue  # same key as the multi-experiment container
        reg_ok.append((cname, isinstance(ref, FuncRef) and ref.fi.qualname == pname))
    r1.check(all(ok for _, ok in reg_ok) and len(reg_ok) >= 8, 'parser registry keys', loc(repo.func(SQW, '_try_parse_block')), {'registry': reg_ok}, key='registry')

    # ---- R2i: unique object container indices ------------------------------------------------------
    ufi = repo.cls(MODELS, 'UniqueObjContainer').methods['_serialize_to_dict']
    ptexts = stmts(repo.func(SQW, '_parse_unique_objects_container_1_0').node)
    r2i.check(any('data=np.array(self.indices)+1.0' in t_ for t_ in stmts(ufi.node))
              and 'return[parsed_objects[int(i)-1]foriinidx]' in ptexts, 'UniqueObjContainer.idx', loc(ufi), {}, key='idx')

    # ---- R3 pixels --------------------------------------------------------------------------------------
    r3 = run.rule('R3', 'pixel rows: names <-> units, signal/error, single conversion into float32, data_range and npix from the same rows', 5)
    bmi = repo.module(BUILD)
    rows = ast.literal_eval(bmi.assigns['_DEFAULT_PIX_ROWS'])
    units = ast.literal_eval(bmi.assigns['_DEFAULT_PIX_ROW_UNITS'])
    want_rows = ('u1', 'u2', 'u3', 'u4', 'irun', 'idet', 'ien', 'signal', 'error')
    want_units = ('1/angstrom', '1/angstrom', '1/angstrom', 'meV', None, None, None, 'count', 'count**2')
    r3.check(tuple(rows) == want_rows and tuple(units) == want_units, 'row names and units', f'src/scippneutron/io/sqw/_build.py:_DEFAULT_PIX_ROWS',
             {'rows': rows, 'units': units}, key='rows')
    sfi = repo.func(BUILD, '_split_pix_rows')
    texts = stmts(sfi.node)
    ok = 'selected.append(sc.values(data.data))' in texts and 'selected.append(sc.variances(data.data))' in texts and 'selected.append(data.coords[name])' in texts
    branches = [norm_(n.test) for n in ast.walk(sfi.node) if isinstance(n, ast.If)]
    r3.check(ok and "name=='signal'" in branches and "name=='error'" in branches and any(t_.startswith('return_PixWrap(row_data=selected,row_units=row_units') for t_ in texts),
             'signal -> values, error -> variances', loc(sfi), {'branches': branches}, key='split')
    wfi = repo.func(BUILD, '_PixWrap.write')
    store = [n for n in ast.walk(wfi.node) if isinstance(n, ast.Assign) and norm_(n.targets[0]).startswith('buffer[')]
    ok = False
    detail = {}
    if len(store) == 1:
        val = store[0].value
        calls = [ast.unparse(c.func) for c in ast.walk(val) if isinstance(c, ast.Call)]
        attrs = [n.attr for n in ast.walk(val) if isinstance(n, ast.Attribute)]
        casts = [c for c in calls if c.split('.')[-1] in ('astype', 'to', 'float32')]
        ok = norm_(store[0].targets[0]) == 'buffer[:n,i_row]' and calls == ['sc.to_unit'] and 'values' in attrs and not casts \
            and norm_(val) == 'sc.to_unit(row[offset:offset+chunk_size],unit,copy=False).values'
        detail = {'stored': ast.unparse(store[0]), 'calls': calls}
    loops = [norm_(n.iter) for n in ast.walk(wfi.node) if isinstance(n, ast.For)]
    r3.check(ok and 'enumerate(zip(self.row_data,self.row_units,strict=True))' in loops
             and any('buffer=np.empty((self.n_pixels(),self.n_rows()),dtype=np.float32)' == t_ for t_ in stmts(wfi.node)),
             'one conversion per row straight into the float32 buffer', loc(wfi), detail, key='write-rows')
    mfi = repo.func(BUILD, 'SqwBuilder._make_pix_metadata')
    src = norm_(mfi.node)
    ok = 'npix=pix_wrap.n_pixels()' in src and '(sc.to_unit(row.min(),unit).value,sc.to_unit(row.max(),unit).value)' in src \
        and 'forrow,unitinzip(pix_wrap.row_data,pix_wrap.row_units,strict=True)' in src and 'data_range=np.vstack(' in src
    r3.check(ok, 'pixel metadata: npix and (min, max) per row in row units', loc(mfi), {}, key='pix-metadata')
    nfi = repo.func(BUILD, '_PixWrap.n_pixels')
    r3.check('returnlen(self.row_data[0])' in stmts(nfi.node) and 'returnlen(self.row_data)' in stmts(repo.func(BUILD, '_PixWrap.n_rows').node),
             'n_pixels / n_rows', loc(nfi), {}, key='counts')

    # ---- R4 shared objects ------------------------------------------------------------------------------
    r4 = run.rule('R4', 'instrument and sample containers reference one shared object for every run', 1)
    bfi = repo.func(BUILD, '_broadcast_unique_ref')
    src = norm_(bfi.node)
    r4.check('objects=[obj]' in src and 'indices=[0]*n' in src, '_broadcast_unique_ref', loc(bfi), {}, key='broadcast')
    pfi = repo.func(BUILD, 'SqwBuilder._prepare_data_blocks')
    src = norm_(pfi.node)
    r4.check("nfiles=blocks['','main_header'].nfiles" in src and src.count('n=nfiles') == 2, 'one reference per run (n = nfiles)', loc(pfi), {}, key='nfiles')
    afi = repo.func(BUILD, 'SqwBuilder.add_pixel_data')
    r4.check("self._data_blocks['','main_header'].nfiles=len(experiments)" in stmts(afi.node)
             and "self._data_blocks['experiment_info','expdata']=SqwMultiIXExperiment(experiments)" in stmts(afi.node), 'nfiles = number of runs', loc(afi), {}, key='nfiles-set')
    return run
