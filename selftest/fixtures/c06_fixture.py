# Positive fixture for C06.R1/R2: NOT part of scippneutron.  The purity rule must
# report the reduction over event data and the raw .unit access on every run.
def bad_kernel(*, wavelength):
    scale = sc.scalar(2.0, unit=wavelength.unit)
    return wavelength / wavelength.max() * scale
