"""Regression test of the interpreter's model of the Python language (no code of /repo involved).

Every function of selftest/fixtures/semantics_cases.py.txt is run natively by Python and by the abstract interpreter
(sa/interp.py with the base model); the results must be equal.  Exit 0 if all agree.

  /venv/bin/python selftest/semantics.py
"""

from __future__ import annotations

import os
import shutil
import sys
import tempfile

VERIF = os.path.dirname(os.path.dirname(os.path.abspath(__file__)))
sys.path.insert(0, VERIF)


def main() -> int:
    from sa.interp import GenResult, Interp
    from sa.load import Repo
    from sa.scipp_model import Model
    src = open(os.path.join(VERIF, 'selftest', 'fixtures', 'semantics_cases.py.txt'), encoding='utf-8').read()
    native: dict = {}
    exec(compile(src, 'semantics_cases.py', 'exec'), native)  # noqa: S102 - my own fixture, not the repository's code
    d = tempfile.mkdtemp(prefix='vsa_sem_')
    bad = 0
    try:
        os.makedirs(os.path.join(d, 'src', 'scippneutron'))
        with open(os.path.join(d, 'src', 'scippneutron', '__init__.py'), 'w', encoding='utf-8') as f:
            f.write(src)
        repo = Repo(d)
        names = [n for n, v in native.items() if callable(v) and not n.startswith('_') and getattr(v, '__module__', None) is None
                 or (callable(v) and not n.startswith('_') and getattr(v, '__code__', None) is not None and v.__code__.co_filename == 'semantics_cases.py')]
        for name in sorted(set(names)):
            want = native[name]()
            it = Interp(repo, Model())
            fi = repo.func('', name)
            try:
                outs = it.run_all(lambda i, fi=fi: i.call_function(fi, [], {}))
                got = [(o.kind, o.value if o.kind == 'return' else o.exc_type) for o in outs]
            except Exception as ex:  # noqa: BLE001
                got = [('analysis-error', f'{type(ex).__name__}: {ex}')]

            def plain(v):
                if isinstance(v, GenResult):
                    return list(v)
                if isinstance(v, tuple):
                    return tuple(plain(x) for x in v)
                if isinstance(v, list):
                    return [plain(x) for x in v]
                if isinstance(v, dict):
                    return {k: plain(x) for k, x in v.items()}
                return v
            ok = len(got) == 1 and got[0][0] == 'return' and plain(got[0][1]) == want and repr(plain(got[0][1])) == repr(want)
            print(f'SEMANTICS {name}: {"ok" if ok else "DIFFERENT"}' + ('' if ok else f' python={want!r} interpreter={got!r}'))
            bad += not ok
    finally:
        shutil.rmtree(d, ignore_errors=True)
    print(f'SEMANTICS total bad={bad}')
    return 1 if bad else 0


if __name__ == '__main__':
    sys.exit(main())
