"""Checker validation: mutants must be detected, twins must stay silent.

Each corpus entry is a textual edit of one file of a scratch copy of
/repo/src (made under $TMPDIR, outside /repo and /verif, removed afterwards).
A mutant still compiles (ast.parse is checked here); the check must exit 1 and
name the rule.  A twin is a behaviour-preserving rewrite; the check must exit 0.
Output uses SELFTEST lines, never the word VIOLATION.
"""

from __future__ import annotations

import ast
import concurrent.futures as cf
import json
import os
import shutil
import subprocess
import sys
import tempfile

VERIF = os.path.dirname(os.path.dirname(os.path.abspath(__file__)))
REPO = os.environ.get('VERIF_REPO', '/repo')


def load_corpus(props=None):
    out = []
    d = os.path.join(VERIF, 'selftest', 'corpus')
    for fn in sorted(os.listdir(d)):
        if not fn.endswith('.json'):
            continue
        with open(os.path.join(d, fn), encoding='utf-8') as f:
            for e in json.load(f):
                if props and e['property'] not in props:
                    continue
                out.append(e)
    # behaviour-preserving refactorings and property-breaking changes written by independent sub-agents
    for sub, kind in (('twins', 'twin'), ('seeded', 'mutant')):
        root = os.path.join(VERIF, sub)
        if not os.path.isdir(root):
            continue
        for name in sorted(os.listdir(root)):
            patch = os.path.join(root, name, 'patch.diff')
            meta = os.path.join(root, name, 'meta.json')
            if not (os.path.exists(patch) and os.path.exists(meta)):
                continue
            m = json.load(open(meta, encoding='utf-8'))
            prop = m['property']
            if m.get('also_check'):
                # the change breaks a clause that another property's check decides (recorded with the reason in meta.json)
                prop = m['also_check'][0]
            if props and prop not in props:
                continue
            out.append({'property': prop, 'id': f'{sub}/{name}', 'kind': kind, 'patch': patch})
    return out


def run_entry(e, base):
    work = tempfile.mkdtemp(prefix='vsa_', dir=base)
    try:
        src = os.path.join(work, 'src')
        shutil.copytree(os.path.join(REPO, 'src'), src, ignore=shutil.ignore_patterns('__pycache__'))
        if 'patch' in e:
            a = subprocess.run(['git', 'apply', '-p1', e['patch']], cwd=work, capture_output=True, text=True)
            if a.returncode:
                return e, 'STALE', f'patch does not apply: {a.stderr.strip()[:200]}'
        for edit in e.get('edits', []):
            path = os.path.join(src, 'scippneutron', edit['file'])
            text = open(path, encoding='utf-8').read()
            n = text.count(edit['old'])
            if n != 1:
                return e, 'STALE', f"edit anchor matches {n} times in {edit['file']}: {edit['old'][:60]!r}"
            text = text.replace(edit['old'], edit['new'])
            try:
                ast.parse(text)
            except SyntaxError as ex:
                return e, 'STALE', f'mutant does not compile: {ex}'
            open(path, 'w', encoding='utf-8').write(text)
        env = dict(os.environ, VERIF_REPO=work, VERIF_OUT=work, VERIF_NO_SELFTEST='1')
        p = subprocess.run([os.path.join(VERIF, 'check'), e['property'], '--tier', e.get('tier', 'quick')],
                           capture_output=True, text=True, env=env, timeout=600)
        out = p.stdout + p.stderr
        if e['kind'] == 'mutant':
            want_rule = e.get('rule')
            hit = p.returncode == 1 and 'VIOLATION property=' in out
            note = ''
            if hit and want_rule and f'FINDING {e["property"]}.{want_rule} ' not in out:
                # the rule named in the corpus is a hint; detection by a sibling rule of the property counts
                note = f'(by another rule than {want_rule}) '
            return e, ('detected' if hit else 'MISSED'), note + _tail(out)
        ok = p.returncode == 0
        return e, ('silent' if ok else 'FALSE-ALARM'), _tail(out)
    finally:
        shutil.rmtree(work, ignore_errors=True)


def _tail(out: str) -> str:
    lines = [ln for ln in out.splitlines() if ln.startswith(('FINDING', 'ANALYSIS-ERROR', 'KNOWN'))]
    return ' | '.join(lines[:4]).replace('VIOLATION', 'V10LATION')


def run_corpus(props=None) -> dict:
    corpus = load_corpus(props or None)
    base = tempfile.mkdtemp(prefix='verif_selftest_')
    bad = 0
    lines = []
    counts = {'mutants': 0, 'detected': 0, 'twins': 0, 'silent': 0}
    try:
        with cf.ThreadPoolExecutor(max_workers=int(os.environ.get('VERIF_JOBS', '16'))) as ex:
            for e, verdict, info in ex.map(lambda x: run_entry(x, base), corpus):
                lines.append(f"SELFTEST {e['kind']}={e['property']}/{e['id']} {verdict} {info[:300]}")
                counts['mutants' if e['kind'] == 'mutant' else 'twins'] += 1
                if verdict in ('detected', 'silent'):
                    counts[verdict] += 1
                if verdict in ('MISSED', 'FALSE-ALARM', 'STALE'):
                    bad += 1
    finally:
        shutil.rmtree(base, ignore_errors=True)
    lines.append(f'SELFTEST total={len(corpus)} bad={bad}')
    return {'total': len(corpus), 'bad': bad, **counts, 'lines': lines}


def main(argv) -> int:
    props = [a.upper() for a in argv if not a.startswith('-')]
    res = run_corpus(props)
    for ln in res['lines']:
        print(ln)
    return 1 if res['bad'] else 0


if __name__ == '__main__':
    sys.exit(main(sys.argv[1:]))
