import numpy as np, scipp as sc
from scippneutron.tof.chopper_cascade import FrameSequence, Chopper
rng=np.random.default_rng(0)
np.set_printoptions(precision=17)
found=0
for trial in range(300):
    t0=rng.uniform(0,1e-3); t1=t0+rng.uniform(1e-4,5e-3)
    w0=rng.uniform(0.1,5); w1=w0+rng.uniform(0.5,10)
    fs=FrameSequence.from_source_pulse(sc.scalar(t0,unit='s'),sc.scalar(t1,unit='s'),sc.scalar(w0,unit='angstrom'),sc.scalar(w1,unit='angstrom'))
    chs=[]
    for k in range(rng.integers(1,4)):
        d=rng.uniform(1,50)
        c=d*(w0+w1)/2/3956.0+ (t0+t1)/2
        o=c+rng.uniform(-1,0.2)*d*(w1-w0)/3956/2; cl=o+rng.uniform(0.05,1)*d*(w1-w0)/3956
        chs.append((d,o,cl))
    f=fs.chop([Chopper(distance=sc.scalar(d,unit='m'), time_open=sc.array(dims=['c'],values=[o],unit='s'), time_close=sc.array(dims=['c'],values=[cl],unit='s')) for d,o,cl in chs])
    last=f.frames[-1]
    for s in last.subframes:
        if not s.is_regular():
            found+=1
            print('trial',trial,'pulse',(t0,t1,w0,w1),'choppers',chs)
            print(' time',s.time.values,'\n wav ',s.wavelength.values, 'w0',w0,'w1',w1)
