"""Witness for F14 (run against the tree before commit 327f125): single-precision energy transfer with
energies in J, tof in s and lengths in angstrom."""
import numpy as np
import scipp as sc

from scippneutron.conversion import tof as k

m_n = sc.constants.m_n
Ei = sc.scalar(1.602176634e-21, unit='J', dtype='float32')  # 10 meV
L1 = sc.scalar(10.0, unit='m').to(unit='angstrom').astype('float32')
L2 = sc.scalar(2.0, unit='m').to(unit='angstrom').astype('float32')
v_i = sc.sqrt(2 * Ei.astype('float64') / m_n).to(unit='m/s')
Ef = 0.4 * Ei.astype('float64')
v_f = sc.sqrt(2 * Ef / m_n).to(unit='m/s')
t = (sc.scalar(10.0, unit='m') / v_i + sc.scalar(2.0, unit='m') / v_f).to(unit='s').astype('float32')
got = k.energy_transfer_direct_from_tof(tof=t, L1=L1, L2=L2, incident_energy=Ei)
want = (Ei.astype('float64') - Ef).value
print('got', got.value, 'want', want)
assert np.isclose(got.value, want, rtol=1e-4), 'energy transfer wrong: the unit-scaled constant underflowed in float32'
