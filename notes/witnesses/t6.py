import numpy as np, scipp as sc
from scippneutron.tof.chopper_cascade import FrameSequence, Chopper
rng=np.random.default_rng(0)
bad=0; tot=0; outside=0
for trial in range(300):
    t0=rng.uniform(0,1e-3); t1=t0+rng.uniform(1e-4,5e-3)
    w0=rng.uniform(0.1,5); w1=w0+rng.uniform(0.5,10)
    fs=FrameSequence.from_source_pulse(sc.scalar(t0,unit='s'),sc.scalar(t1,unit='s'),sc.scalar(w0,unit='angstrom'),sc.scalar(w1,unit='angstrom'))
    chs=[]
    for k in range(rng.integers(1,4)):
        d=rng.uniform(1,50)
        # window roughly where the frame is
        c=d*(w0+w1)/2/3956.0+ (t0+t1)/2
        o=c+rng.uniform(-1,0.2)*d*(w1-w0)/3956/2; cl=o+rng.uniform(0.05,1)*d*(w1-w0)/3956
        chs.append(Chopper(distance=sc.scalar(d,unit='m'), time_open=sc.array(dims=['c'],values=[o],unit='s'), time_close=sc.array(dims=['c'],values=[cl],unit='s')))
    f=fs.chop(chs)
    last=f.frames[-1]
    if not last.subframes: continue
    tot+=1
    try: last.subbounds()
    except NotImplementedError: bad+=1
    for s in last.subframes:
        if s.wavelength.min().value < w0 or s.wavelength.max().value> w1: outside+=1
print('frames',tot,'irregular',bad,'wavelength outside band',outside)
