import numpy as np, scipp as sc
from scippneutron.conversion import beamline as bl
# C04: gravity, generic path vs orthogonal path
g = sc.vector([0,-9.81,0], unit='m/s^2')
lam = sc.scalar(10.0, unit='angstrom')
b2 = sc.vector([0.0, 1.0, 10.0], unit='m')   # detector above horizontal beam
def run(tilt):
    b1 = sc.vector([0.0, np.sin(tilt), np.cos(tilt)], unit='m')*10.0
    r = bl.scattering_angles_with_gravity(b1, b2, lam, g)
    nog = bl.two_theta(incident_beam=b1, scattered_beam=b2)
    return r['two_theta'].value, nog.value, r['phi'].value
for t in [0.0, 1e-12, 1e-9, 1e-6, 1e-3]:
    print('tilt',t, run(t))
