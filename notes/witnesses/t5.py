import numpy as np, scipp as sc, traceback
from scippneutron.peaks import fit_peaks, remove_peaks
rng=np.random.default_rng(1)
x=sc.linspace('x',0.,10.,201,unit='angstrom')
y=5*np.exp(-(x.values-5)**2/(2*0.2**2))+1+0.1*x.values+rng.normal(0,0.05,201)
da=sc.DataArray(sc.array(dims=['x'],values=y,variances=np.full(201,0.05**2),unit='counts'),coords={'x':x})
for w in [2.0, 0.3, 0.12, 0.04, 0.0]:
    try:
        r=fit_peaks(da, peak_estimates=sc.array(dims=['x'],values=[5.0],unit='angstrom'), windows=sc.scalar(w,unit='angstrom'), background='linear', peak='gaussian')
        print(w, [ (q.assessment.name) for q in r])
    except Exception as e:
        print(w,'EXC',type(e).__name__, str(e)[:100])
# estimate outside the data
for c in [-1.0, 10.5, 0.0, 10.0]:
    try:
        r=fit_peaks(da, peak_estimates=sc.array(dims=['x'],values=[c],unit='angstrom'), windows=sc.scalar(1.0,unit='angstrom'), background='linear', peak='gaussian')
        print('est',c, [ (q.assessment.name) for q in r], r[0].window.values)
    except Exception as e:
        print('est',c,'EXC',type(e).__name__, str(e)[:100])
