"""Witness for F16 (run against the tree before the fix): Chopper.from_disk_chopper expanded the openings of a disk
chopper over several source pulses by shifting them by whole *pulse* periods.  A chopper that is slower than the
source (it skips pulses) is then reported open while the slit is half a turn away from the beam, and for every
chopper the rotation at each pulse boundary is reported twice."""
import numpy as np
import scipp as sc

from scippneutron.chopper import DiskChopper
from scippneutron.tof.chopper_cascade import Chopper

pulse = sc.scalar(14.0, unit='Hz')
for f in (7.0, 14.0, 28.0):
    ch = DiskChopper(frequency=sc.scalar(f, unit='Hz'), beam_position=sc.scalar(0.0, unit='deg'), phase=sc.scalar(30.0, unit='deg'),
                     axle_position=sc.vector([0, 0, 6.0], unit='m'), slit_begin=sc.array(dims=['slit'], values=[10.0], unit='deg'),
                     slit_end=sc.array(dims=['slit'], values=[40.0], unit='deg'), slit_height=None, radius=None)
    first = ch.time_offset_open(pulse_frequency=pulse).to(unit='s').values[0]
    opens = Chopper.from_disk_chopper(ch, pulse_frequency=pulse, npulses=3).time_open.to(unit='s').values
    turns = (opens - first) * f  # every opening of a one-slit disk is a whole number of rotations after the first
    assert np.allclose(turns, np.round(turns), atol=1e-9), f'f={f} Hz: reported open at {opens} s, rotation period {1 / f} s'
    assert len(set(np.round(opens, 9))) == len(opens), f'f={f} Hz: an opening is reported twice: {opens}'
print('ok')
