import numpy as np, scipp as sc
from scippneutron.chopper import DiskChopper
def mk(b,e,f=14.0,phase=0., bp=0.):
    return DiskChopper(axle_position=sc.vector([0,0,5.],unit='m'), frequency=sc.scalar(f,unit='Hz'), beam_position=sc.scalar(bp,unit='deg'),
      phase=sc.scalar(phase,unit='deg'), slit_begin=sc.array(dims=['slit'],values=b,unit='deg'), slit_end=sc.array(dims=['slit'],values=e,unit='deg'))
try:
    mk([5.,350.],[20.,370.]); print('TDC-overlap accepted (350..370 overlaps 5..20 mod 360)')
except ValueError as e: print('rejected',e)
try:
    mk([5.,10.],[20.,30.]); print('plain overlap accepted')
except ValueError as e: print('plain overlap rejected')
try:
    mk([5.,20.],[20.,30.]); print('touching accepted')
except ValueError as e: print('touching rejected')
# open<close and durations
for f in [14.,-14.,28.,-28.,7.,-7.]:
    c=mk([10.,100.],[40.,160.], f=f, phase=30., bp=20.)
    o=c.time_offset_open(pulse_frequency=sc.scalar(14.,unit='Hz')); cl=c.time_offset_close(pulse_frequency=sc.scalar(14.,unit='Hz'))
    print(f, 'open<close', bool(sc.all(o<cl).value), 'dur', (cl-o).values[:2], 'expected', np.array([30.,60.])/360/abs(f), 'n', len(o))
from scippneutron.tof.chopper_cascade import Chopper
c=mk([10.,100.],[40.,160.], f=28.)
ch=Chopper.from_disk_chopper(c, pulse_frequency=sc.scalar(14.,unit='Hz'), npulses=2)
print(ch.time_open.values, ch.time_close.values)
