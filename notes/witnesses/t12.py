# Measurement of scipp's aliasing semantics, used once to freeze the rows of the
# alias table in DESIGN.md section 2.2 (a note, not a check). Run with
# /venv/bin/python. "shares_memory=True" means writing through the derived object
# changes the original.
import numpy as np
import scipp as sc


def shares(make):
    x = sc.array(dims=['x'], values=[1.0, 2.0, 3.0, 4.0], unit='m')
    y = make(x)
    try:
        before = x.values.copy()
        if isinstance(y, np.ndarray):
            y[...] = -7
        elif isinstance(y, sc.DataArray):
            y.data.values[...] = -7
        else:
            y.values[...] = -7
        return not np.array_equal(before, x.values)
    except Exception as e:  # noqa: BLE001
        return 'ERR ' + type(e).__name__


tests = {
    'to(unit same, copy=False)': lambda x: x.to(unit='m', copy=False),
    'to(unit other, copy=False)': lambda x: x.to(unit='mm', copy=False),
    'to(unit same) default': lambda x: x.to(unit='m'),
    'to(dtype same, copy=False)': lambda x: x.to(dtype='float64', copy=False),
    'astype same copy=False': lambda x: x.astype('float64', copy=False),
    'astype f32 copy=False': lambda x: x.astype('float32', copy=False),
    'sc.to_unit same copy=False': lambda x: sc.to_unit(x, 'm', copy=False),
    'slice': lambda x: x['x', 1:3],
    'index': lambda x: x['x', 1],
    'values': lambda x: x.values,
    'copy': lambda x: x.copy(),
    'sc.values': lambda x: sc.values(x),
    'broadcast': lambda x: x.broadcast(sizes={'x': 4}),
    'transpose': lambda x: x.transpose(),
    'flatten': lambda x: x.flatten(to='z'),
    'fold': lambda x: x.fold('x', sizes={'a': 2, 'b': 2}),
    'rename_dims': lambda x: x.rename_dims({'x': 'q'}),
    'x*1': lambda x: x * 1,
    'abs': lambda x: abs(x),
    'sc.abs out': lambda x: sc.abs(x, out=x),
    '[:]': lambda x: x[:],
    'DataArray(x) data': lambda x: sc.DataArray(x),
    'DataArray.copy(deep=False)': lambda x: sc.DataArray(x).copy(deep=False),
    'DataArray slice': lambda x: sc.DataArray(x, coords={'x': x.copy()})['x', 0:2],
}
for k, f in tests.items():
    print(f'{k:32s} shares_memory={shares(f)}')

v = sc.vectors(dims=['x'], values=[[1.0, 2, 3]], unit='m')
f = v.fields.x
f.values[...] = 9
print('fields.x shares', v.values[0, 0] == 9)
