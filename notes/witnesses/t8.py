import scipp as sc, itertools, numpy as np
dts=['float64','float32','int64','int32']
for op in ['*','/','+','-','**']:
    row=[]
    for a,b in itertools.product(dts,repeat=2):
        x=sc.scalar(2,dtype=a); y=sc.scalar(3,dtype=b)
        try: r=str(eval(f'x{op}y').dtype)
        except Exception as e: r='ERR'
        row.append(f'{a[0]}{a[-2:]}{op}{b[0]}{b[-2:]}={r}')
    print(' '.join(row))
x=sc.scalar(2,dtype='int64'); print('sqrt int', end=' ');
try: print(sc.sqrt(x).dtype)
except Exception as e: print('ERR',e)
print('sin f32', sc.sin(sc.scalar(1.0,dtype='float32',unit='rad')).dtype, 'norm', sc.norm(sc.vector([1.,2,3])).dtype)
print('2*f32', (2*sc.scalar(1.0,dtype='float32')).dtype, '2.0*f32', (2.0*sc.scalar(1.0,dtype='float32')).dtype, 'f32/2', (sc.scalar(1.0,dtype='float32')/2).dtype,'np.pi', (2*np.pi/sc.scalar(1.0,dtype='float32')).dtype)
print('f32**2', (sc.scalar(1.0,dtype='float32')**2).dtype, 'i64**2', (sc.scalar(3,dtype='int64')**2).dtype, 'i64/i64', (sc.scalar(3,dtype='int64')/sc.scalar(2)).dtype)
print('where', sc.where(sc.scalar(True), sc.scalar(1.0,dtype='float32'), sc.scalar(1.0,dtype='float32')).dtype)
try: print('where mixed', sc.where(sc.scalar(True), sc.scalar(1.0,dtype='float32'), sc.scalar(1.0,dtype='float64')).dtype)
except Exception as e: print('where mixed ERR', type(e).__name__)
