"""Witness for F15 (run against the tree before the fix): saving the same CIF builder twice writes two different
files, because CIF.save consumed the builder's id generator (author ids 1, 2 the first time, 3, 4 the second)."""
import io

from scippneutron.io import cif
from scippneutron.metadata import Person

c = cif.CIF('x').with_authors(Person(name='A B', role='r1', corresponding=True), Person(name='C D', role='r2'))
first, second = io.StringIO(), io.StringIO()
c.save(first)
c.save(second)
assert first.getvalue() == second.getvalue(), 'the second file differs from the first: save() changed the builder'
print('ok')
