import io, numpy as np, scipp as sc
from scippneutron.io import sqw
from scippneutron.io.sqw import Sqw, SqwIXExperiment, EnergyMode, SqwIXSample, SqwIXNullInstrument, SqwIXSource
def exp(i):
    return SqwIXExperiment(run_id=i, efix=sc.scalar(1.2,unit='meV'), emode=EnergyMode.direct,
        en=sc.array(dims=['energy_transfer'], values=[1.,2.], unit='meV'),
        psi=sc.scalar(1.,unit='deg'), u=sc.vector([1.,0,0]), v=sc.vector([0,1.,0]),
        omega=sc.scalar(0.,unit='rad'), dpsi=sc.scalar(0.,unit='rad'), gl=sc.scalar(0.,unit='rad'), gs=sc.scalar(0.,unit='rad'))
def pix(n):
    rng=np.random.default_rng(0)
    c={k: sc.array(dims=['obs'], values=rng.random(n), unit=u) for k,u in [('u1','1/angstrom'),('u2','1/angstrom'),('u3','1/angstrom'),('u4','meV')]}
    for k in ['irun','idet','ien']: c[k]=sc.array(dims=['obs'], values=np.arange(n,dtype=float), unit=None)
    return sc.DataArray(sc.array(dims=['obs'], values=rng.random(n), variances=rng.random(n), unit='count'), coords=c)
for n,chunk in [(7,2),(100,8192),(100,10),(20,3),(50,5)]:
    buf=io.BytesIO()
    b=Sqw.build(buf,title='t').add_pixel_data(pix(n), experiments=[exp(0)])
    b.add_default_sample(SqwIXSample(name='s', lattice_spacing=sc.vector([2.,3.,4.],unit='angstrom'), lattice_angle=sc.vector([90.,90,90],unit='deg')))
    b.create(chunk_size=chunk)
    size=len(buf.getvalue())
    buf.seek(0)
    with Sqw.open(buf) as f:
        bat=f._block_allocation_table
        end=max(d.position+d.size for d in bat.values())
        print(n,chunk,'file size',size,'declared end',end, 'OK' if size==end else 'MISMATCH')
        s=f.read_data_block('experiment_info','samples')
        if n==7: print('sample lattice_spacing read back:', s[0].lattice_spacing)
