"""Witness for F13 (run against the tree before commit 2dcf105): an SQW file written for an indirect-geometry
instrument (one efix per detector, en per detector) cannot be read back by the package."""
import io

import numpy as np
import scipp as sc

from scippneutron.io import sqw
from scippneutron.io.sqw import EnergyMode, Sqw, SqwIXExperiment

exp = SqwIXExperiment(
    run_id=0, efix=sc.array(dims=['detector'], values=[3.0, 3.5], unit='meV'), emode=EnergyMode.indirect,
    en=sc.array(dims=['detector', 'energy_transfer'], values=[[0.0, 1.0, 2.0], [0.5, 1.5, 2.5]], unit='meV'),
    psi=sc.scalar(1.0, unit='rad'), u=sc.vector([1.0, 0, 0]), v=sc.vector([0, 1.0, 0]),
    omega=sc.scalar(0.0, unit='rad'), dpsi=sc.scalar(0.0, unit='rad'), gl=sc.scalar(0.0, unit='rad'), gs=sc.scalar(0.0, unit='rad'))
n = 4
pix = sc.DataArray(sc.ones(dims=['obs'], shape=[n], with_variances=True, unit='count'), coords={
    'u1': sc.zeros(dims=['obs'], shape=[n], unit='1/angstrom'), 'u2': sc.zeros(dims=['obs'], shape=[n], unit='1/angstrom'),
    'u3': sc.zeros(dims=['obs'], shape=[n], unit='1/angstrom'), 'u4': sc.zeros(dims=['obs'], shape=[n], unit='meV'),
    'irun': sc.zeros(dims=['obs'], shape=[n], unit=None), 'idet': sc.zeros(dims=['obs'], shape=[n], unit=None), 'ien': sc.zeros(dims=['obs'], shape=[n], unit=None)})
buf = io.BytesIO()
Sqw.build(buf, title='t').add_pixel_data(pix, experiments=[exp]).create()
buf.seek(0)
with Sqw.open(buf) as f:
    back = f.read_data_block('experiment_info', 'expdata')
assert sc.identical(back[0].en, exp.en), back[0].en
print('ok')
