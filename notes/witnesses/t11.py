import numpy as np, scipp as sc
from scippneutron.conversion import beamline as bl
g = sc.vector([0,-9.81,0], unit='m/s^2'); b1=sc.vector([0,0,10.],unit='m'); b2=sc.vectors(dims=['d'],values=[[0.3,1.2,10.4]],unit='m')
for dt in ['float64','float32','int64','int32']:
    lam=sc.array(dims=['w'],values=[10],unit='angstrom',dtype=dt)
    for name,fn in [('angles',bl.scattering_angles_with_gravity),('yz',bl.scattering_angle_in_yz_plane)]:
        try:
            r=fn(b1,b2,lam,g)
            if isinstance(r,dict): print(dt,name,{k:(str(v.dtype),float(v.values.ravel()[0])) for k,v in r.items()})
            else: print(dt,name,str(r.dtype),float(r.values.ravel()[0]))
        except Exception as e: print(dt,name,'EXC',type(e).__name__,str(e)[:80])
