import io, numpy as np, scipp as sc
from scippneutron.io import cif
for v in ['_foo', '#c', '$x', ';abc', '[a]', 'data_x', 'loop_', 'a\tb', 'stop_', 'global_', "a'b c\"d", "x\n;y"]:
    f=io.StringIO(); cif.Block('b',[{'k.a': v, 'k.b': 'next'}]).write(f)
    print(repr(v), '->', repr(f.getvalue().split('\n\n',1)[1]))
f=io.StringIO(); cif.Loop({'k.a': sc.array(dims=['x'], values=['_foo','b']), 'k.b': sc.array(dims=['x'], values=['#z','d'])}).write(f); print(repr(f.getvalue()))
# Cylinder rotation
from scippneutron.absorption import Cylinder
for a in [[0,0,1.],[0,1.,0],[np.sin(2.0),0,np.cos(2.0)],[0,0,-1.],[0.6,0,-0.8]]:
    a=sc.vector(a)
    c=Cylinder(symmetry_line=a, center_of_base=sc.vector([0,0,0.],unit='m'), radius=sc.scalar(1.,unit='m'), height=sc.scalar(10.,unit='m'))
    p,w=c.quadrature('cheap')
    rel=p-c.center_of_base
    ax=sc.dot(rel,a); rad=sc.norm(rel-ax*a)
    print(a.value, 'axial range',ax.min().value,ax.max().value,'max radial',rad.max().value, 'sumw/vol', (w.sum()/c.volume).value)
# ScatteringParams cache
from scippneutron.atoms import ScatteringParams, Atom
p=ScatteringParams.for_isotope('H'); before=p.absorption_cross_section.value
p.absorption_cross_section.value=123.0
print('cache poisoned:', before, ScatteringParams.for_isotope('H').absorption_cross_section.value)
a=Atom.for_isotope('H'); a.atomic_weight.value=5.; print('Atom ok', Atom.for_isotope('H').atomic_weight.value)
