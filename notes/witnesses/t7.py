import numpy as np, scipp as sc, itertools
from scippneutron.conversion import tof as K, beamline as B
def v(val, unit, dt): return sc.array(dims=['x'], values=[val], unit=unit, dtype=dt)
dts=['float64','float32','int64','int32']
def show(name, fn, spec):
    bad=[]
    for combo in itertools.product(dts, repeat=len(spec)):
        kw={k: v(val,u,dt) for (k,(val,u)),dt in zip(spec.items(), combo)}
        try:
            r=fn(**kw)
            exp='float32' if combo[0]=='float32' else 'float64'
            if str(r.dtype)!=exp: bad.append((combo,str(r.dtype)))
        except Exception as e:
            bad.append((combo,'EXC '+type(e).__name__))
    print(name, 'deviations from "first operand float32 -> float32 else float64":', bad[:8], len(bad))
show('wavelength_from_tof', K.wavelength_from_tof, {'tof':(1000,'us'),'Ltotal':(10,'m')})
show('dspacing_from_tof', K.dspacing_from_tof, {'tof':(1000,'us'),'Ltotal':(10,'m'),'two_theta':(1,'rad')})
show('energy_from_tof', K.energy_from_tof, {'tof':(1000,'us'),'Ltotal':(10,'m')})
show('energy_from_wavelength', K.energy_from_wavelength, {'wavelength':(2,'angstrom')})
show('wavelength_from_energy', K.wavelength_from_energy, {'energy':(2,'meV')})
show('Q_from_wavelength', K.Q_from_wavelength, {'wavelength':(2,'angstrom'),'two_theta':(1,'rad')})
show('wavelength_from_Q', K.wavelength_from_Q, {'Q':(2,'1/angstrom'),'two_theta':(1,'rad')})
show('dspacing_from_wavelength', K.dspacing_from_wavelength, {'wavelength':(2,'angstrom'),'two_theta':(1,'rad')})
show('dspacing_from_energy', K.dspacing_from_energy, {'energy':(2,'meV'),'two_theta':(1,'rad')})
show('et_direct', K.energy_transfer_direct_from_tof, {'tof':(5000,'us'),'L1':(10,'m'),'L2':(2,'m'),'incident_energy':(20,'meV')})
show('et_indirect', K.energy_transfer_indirect_from_tof, {'tof':(5000,'us'),'L1':(10,'m'),'L2':(2,'m'),'final_energy':(20,'meV')})
print('----')
dts=['float64','float32','int64']
for name,fn,ek in [('direct',K.energy_transfer_direct_from_tof,'incident_energy'),('indirect',K.energy_transfer_indirect_from_tof,'final_energy')]:
    res={}
    for combo in itertools.product(dts, repeat=4):
        kw={k: v(val,u,dt) for (k,(val,u)),dt in zip({'tof':(5000,'us'),'L1':(10,'m'),'L2':(2,'m'),ek:(20,'meV')}.items(), combo)}
        try: r=str(fn(**kw).dtype)
        except Exception as e: r='EXC '+type(e).__name__+str(e)[:60]
        res[combo]=r
    f32=[c for c,r in res.items() if r=='float32']; exc=[(c,r) for c,r in res.items() if r.startswith('EXC')]
    print(name,'float32 for (tof,L1,L2,E)=',f32); print(' exceptions',exc[:5],len(exc))
